//! C16 — the JavaScript-facing linter object (`harper_wasm::Linter`, built natively as an rlib).
//!
//! K: whole call sequences on ONE real `Linter` against the Lean state machine
//! (`Harper/Model/Wasm.lean`). The model is fed with what the real rule set returns
//! (`LintGroup::lint`, obtained independently with a `LintGroup` configured like the Linter's:
//! curated dictionary + the user words, curated config overlaid with `get_lint_config_as_json()`)
//! and the real tokens — once per candidate user dictionary (every word list `export_words()` has
//! returned so far in the sequence); the model decides which dictionary is in force.
//!
//! O: the property on the real API, for every call of every sequence, independent of the model
//! (a second real Linter that never ignores anything is the reference for the ignore clause; a
//! fresh real Linter per sequence is the reference for export → import).
use crate::common::*;
use harper_core::linting::{Lint, LintGroup, LintGroupConfig, Linter as _, Suggestion};
use harper_core::parsers::{Markdown, PlainEnglish};
use harper_core::{
    Dictionary, Document, FatToken, FstDictionary, Lrc, MergedDictionary, MutableDictionary, Punctuation, Quote, Token,
    TokenKind, WordId, WordMetadata, remove_overlaps,
};
use harper_wasm::{Dialect as WDialect, Language, Lint as WLint, Linter as WLinter, Span as WSpan, Suggestion as WSuggestion, SuggestionKind};
use serde_json::{Value, json};
use std::cell::RefCell;
use std::collections::{BTreeMap, BTreeSet, HashMap, HashSet};
use std::sync::Arc;

/// recorded finding: `import_words` re-synchronises only when the number of entries grew, and the
/// entries are keyed case-insensitively
const CLASS_STALE: &str = "c16-words-case-only-reimport-stale";
/// candidate finding: the ignore context hashes the neighbouring words' dictionary metadata
const CLASS_IGNORE_DICT: &str = "c16-ignored-lint-returns-after-import-words";

const DIALECTS: [&str; 4] = ["American", "British", "Australian", "Canadian"];

fn wdialect(d: &str) -> WDialect {
    match d {
        "British" => WDialect::British,
        "Australian" => WDialect::Australian,
        "Canadian" => WDialect::Canadian,
        _ => WDialect::American,
    }
}
fn cdialect(d: &str) -> harper_core::Dialect {
    match d {
        "British" => harper_core::Dialect::British,
        "Australian" => harper_core::Dialect::Australian,
        "Canadian" => harper_core::Dialect::Canadian,
        _ => harper_core::Dialect::American,
    }
}
fn lang(md: bool) -> Language {
    if md { Language::Markdown } else { Language::Plain }
}

// ---------------------------------------------------------------------------------------------
// the rule set outside the Linter: `LintGroup::lint` for a stated user dictionary and config
// ---------------------------------------------------------------------------------------------

struct Shadow {
    groups: HashMap<(String, Vec<String>), (Arc<MergedDictionary>, LintGroup)>,
}

thread_local! { static SHADOW: RefCell<Shadow> = RefCell::new(Shadow { groups: HashMap::new() }); }

impl Shadow {
    fn entry(&mut self, dialect: &str, words: &[String]) -> &mut (Arc<MergedDictionary>, LintGroup) {
        if self.groups.len() > 48 {
            self.groups.clear();
        }
        self.groups.entry((dialect.to_string(), words.to_vec())).or_insert_with(|| {
            let mut user = MutableDictionary::new();
            user.extend_words(words.iter().map(|w| (w.chars().collect::<Vec<char>>(), WordMetadata::default())));
            let mut merged = MergedDictionary::new();
            merged.add_dictionary(FstDictionary::curated());
            merged.add_dictionary(Arc::new(user));
            let merged = Arc::new(merged);
            let group = LintGroup::new_curated_empty_config(merged.clone(), cdialect(dialect));
            (merged, group)
        })
    }
}

fn parse_doc(text: &str, md: bool, dict: &MergedDictionary) -> Document {
    let src: Vec<char> = text.chars().collect();
    if md { Document::new_from_vec(Lrc::new(src), &Markdown::default(), dict) } else { Document::new_from_vec(Lrc::new(src), &PlainEnglish, dict) }
}

/// (document, raw lints) of `text` for the user dictionary `words` and the Linter's config
fn shadow_lint(dialect: &str, words: &[String], cfg_json: &str, text: &str, md: bool) -> Result<(Document, Vec<Lint>), String> {
    SHADOW.with(|s| {
        let mut s = s.borrow_mut();
        let (dict, group) = s.entry(dialect, words);
        let dict = dict.clone();
        guarded(|| {
            let mut cfg: LintGroupConfig = serde_json::from_str(cfg_json).unwrap_or_default();
            cfg.fill_with_curated();
            group.config = cfg;
            let doc = parse_doc(text, md, &dict);
            let lints = group.lint(&doc);
            (doc, lints)
        })
    })
}

fn shadow_doc(dialect: &str, words: &[String], text: &str, md: bool) -> Result<Document, String> {
    SHADOW.with(|s| {
        let mut s = s.borrow_mut();
        let dict = s.entry(dialect, words).0.clone();
        guarded(|| parse_doc(text, md, &dict))
    })
}

// ---------------------------------------------------------------------------------------------
// encoding for the model (interners are per sequence: one sequence = one op line)
// ---------------------------------------------------------------------------------------------

#[derive(Default)]
struct Enc {
    kinds: HashMap<TokenKind, usize>,
    strs: HashMap<String, usize>,
    rules: HashMap<String, usize>,
    wkeys: HashMap<WordId, usize>,
    /// monitor: `WordId` ↔ normalised lower-case spelling
    wkey_lower: HashMap<WordId, String>,
}

fn commas(v: &[usize]) -> String {
    if v.is_empty() { "-".to_string() } else { v.iter().map(|x| x.to_string()).collect::<Vec<_>>().join(",") }
}

impl Enc {
    fn s(&mut self, s: &str) -> usize {
        let n = self.strs.len();
        *self.strs.entry(s.to_string()).or_insert(n)
    }
    fn rule(&mut self, s: &str) -> usize {
        let n = self.rules.len();
        *self.rules.entry(s.to_string()).or_insert(n)
    }
    /// as in c14.rs: injective on what the derived `Hash` of `TokenKind` sees
    fn kind(&mut self, k: &TokenKind) -> Vec<usize> {
        let code = match k {
            TokenKind::Word(_) => 0,
            TokenKind::Punctuation(_) => 1,
            TokenKind::Decade => 2,
            TokenKind::Number(_) => 3,
            TokenKind::Space(_) => 4,
            TokenKind::Newline(_) => 5,
            TokenKind::EmailAddress => 6,
            TokenKind::Url => 7,
            TokenKind::Hostname => 8,
            TokenKind::Unlintable => 9,
            TokenKind::ParagraphBreak => 10,
            TokenKind::Regexish => 11,
        };
        match k {
            TokenKind::Punctuation(Punctuation::Quote(Quote { twin_loc })) => match twin_loc {
                Some(l) => vec![1, 0, 1, *l],
                None => vec![1, 0, 0],
            },
            TokenKind::Word(None) => vec![0, 0],
            TokenKind::Space(n) => vec![4, *n],
            TokenKind::Newline(n) => vec![5, *n],
            TokenKind::Word(Some(_)) | TokenKind::Punctuation(_) | TokenKind::Number(_) => {
                let n = self.kinds.len();
                let id = *self.kinds.entry(k.clone()).or_insert(n);
                vec![code, 1 + id]
            }
            _ => vec![code],
        }
    }
    /// `start:stop:K:C`, the content interned (the model only compares it)
    fn tokens(&mut self, doc: &Document) -> String {
        let src = doc.get_source();
        let mut out = vec![];
        for t in doc.get_tokens() {
            let k = self.kind(&t.kind);
            let content: String = t.span.get_content(src).iter().collect();
            let c = self.s(&content);
            out.push(format!("{}:{}:{}:{}", t.span.start, t.span.end, commas(&k), c));
        }
        out.join(" ")
    }
    /// the payload tag of a lint (what the wrapper prints as `id`)
    fn pid(&mut self, l: &Lint) -> usize {
        self.s(&format!("P|{}|{}|{}|{:?}", l.lint_kind as usize, l.priority, l.message, l.suggestions))
    }
    /// `id:start:stop:kind:priority:M:S` with message and suggestion list interned
    fn lint(&mut self, l: &Lint) -> String {
        let id = self.pid(l);
        let m = self.s(&format!("M|{}", l.message));
        let sg = self.s(&format!("S|{:?}", l.suggestions));
        format!("{}:{}:{}:{}:{}:{}:{}", id, l.span.start, l.span.end, l.lint_kind as usize, l.priority, m, sg)
    }
    fn lints(&mut self, ls: &[Lint]) -> String {
        ls.iter().map(|l| self.lint(l)).collect::<Vec<_>>().join(" ")
    }
    fn dict(&self, words: &[String]) -> String {
        words.iter().map(|w| commas(&w.chars().map(|c| c as usize).collect::<Vec<_>>())).collect::<Vec<_>>().join(" ")
    }
    fn word(&mut self, w: &str, mons: &mut Vec<(String, bool)>) -> String {
        let cs: Vec<char> = w.chars().collect();
        let id = WordId::from_word_chars(&cs);
        let lower: String = w.to_lowercase();
        let same = self.wkey_lower.entry(id).or_insert(lower.clone()) == &lower;
        // only a monitor of the harness's reading of `WordId` (lower-cased spelling); not used by the model
        mons.push(("wordid-is-lowercased-spelling".into(), same || w.chars().any(|c| !c.is_ascii())));
        let n = self.wkeys.len();
        let k = *self.wkeys.entry(id).or_insert(n);
        format!("{}:{}", k, commas(&cs.iter().map(|c| *c as usize).collect::<Vec<_>>()))
    }
}

fn cps(text: &str) -> String {
    text.chars().map(|c| (c as u32).to_string()).collect::<Vec<_>>().join(" ")
}

// ---------------------------------------------------------------------------------------------
// the oracle's own notion of "that lint": kind, message, suggestions, priority, neighbouring tokens
// ---------------------------------------------------------------------------------------------

fn tok_key(t: &FatToken) -> String {
    match &t.kind {
        // the characters identify the word; its dictionary metadata is not part of "the token"
        TokenKind::Word(_) => format!("W{:?}", t.content),
        k => format!("{:?}{:?}", k, t.content),
    }
}

fn okey(doc: &Document, l: &Lint) -> String {
    let src = doc.get_source();
    let inter = |a: usize, b: usize| -> Vec<String> {
        doc.get_tokens().iter().filter(|t: &&Token| t.span.start < b && a < t.span.end).map(|t| tok_key(&t.to_fat(src))).collect()
    };
    let s = l.span.start;
    let pre = if s >= 2 { inter(s - 2, s) } else { vec![] };
    format!("{:?}|{}|{:?}|{}|{:?}|{:?}|{:?}", l.lint_kind, l.message, l.suggestions, l.priority, pre, inter(s, l.span.end), inter(s + 2, s + 4))
}

/// lower-cased spellings of the word tokens in the three context windows of `l`
fn window_words(doc: &Document, l: &Lint) -> Vec<String> {
    let src = doc.get_source();
    let s = l.span.start;
    let mut wins = vec![(s, l.span.end), (s + 2, s + 4)];
    if s >= 2 {
        wins.push((s - 2, s));
    }
    doc.get_tokens()
        .iter()
        .filter(|t| t.kind.is_word() && wins.iter().any(|(a, b)| t.span.start < *b && *a < t.span.end))
        .map(|t| t.span.get_content(src).iter().collect::<String>().to_lowercase())
        .collect()
}

fn hashes_of_export(json: &str) -> Vec<u64> {
    let v: Value = serde_json::from_str(json).unwrap_or(Value::Null);
    let mut hs: Vec<u64> = v["context_hashes"].as_array().map(|a| a.iter().filter_map(|x| x.as_u64()).collect()).unwrap_or_default();
    hs.sort();
    hs
}

// ---------------------------------------------------------------------------------------------
// calls
// ---------------------------------------------------------------------------------------------

#[derive(Clone, Debug)]
enum Call {
    Lint { text: String, md: bool },
    /// apply suggestion `sugg` of lint `lint` of the result of call `from`, to `text` (default: that call's text)
    Apply { from: usize, lint: usize, sugg: usize, text: Option<String> },
    /// ignore lint `lint` of the result of call `from`, in `text` (default: that call's text)
    Ignore { from: usize, lint: usize, text: Option<String> },
    ExportIgnored,
    ImportIgnored { k: usize },
    ClearIgnored,
    ImportWords(Vec<String>),
    ExportWords,
    SetConfig(Vec<(String, Option<bool>)>),
    GetConfig,
    Stats,
}

impl Call {
    fn to_json(&self) -> Value {
        match self {
            Call::Lint { text, md } => json!({"op": "lint", "text": text, "md": md}),
            Call::Apply { from, lint, sugg, text } => json!({"op": "apply", "from": from, "lint": lint, "sugg": sugg, "text": text}),
            Call::Ignore { from, lint, text } => json!({"op": "ignore", "from": from, "lint": lint, "text": text}),
            Call::ExportIgnored => json!({"op": "export_ignored"}),
            Call::ImportIgnored { k } => json!({"op": "import_ignored", "k": k}),
            Call::ClearIgnored => json!({"op": "clear_ignored"}),
            Call::ImportWords(ws) => json!({"op": "import_words", "words": ws}),
            Call::ExportWords => json!({"op": "export_words"}),
            Call::SetConfig(es) => json!({"op": "set_config", "entries": es.iter().map(|(k, v)| json!([k, v])).collect::<Vec<_>>()}),
            Call::GetConfig => json!({"op": "get_config"}),
            Call::Stats => json!({"op": "stats"}),
        }
    }
    fn from_json(v: &Value) -> Option<Call> {
        let u = |k: &str| v[k].as_u64().unwrap_or(0) as usize;
        let t = |k: &str| v[k].as_str().map(|s| s.to_string());
        Some(match v["op"].as_str()? {
            "lint" => Call::Lint { text: t("text")?, md: v["md"].as_bool().unwrap_or(false) },
            "apply" => Call::Apply { from: u("from"), lint: u("lint"), sugg: u("sugg"), text: t("text") },
            "ignore" => Call::Ignore { from: u("from"), lint: u("lint"), text: t("text") },
            "export_ignored" => Call::ExportIgnored,
            "import_ignored" => Call::ImportIgnored { k: u("k") },
            "clear_ignored" => Call::ClearIgnored,
            "import_words" => Call::ImportWords(v["words"].as_array()?.iter().filter_map(|x| x.as_str().map(|s| s.to_string())).collect()),
            "export_words" => Call::ExportWords,
            "set_config" => Call::SetConfig(
                v["entries"].as_array()?.iter().filter_map(|e| Some((e[0].as_str()?.to_string(), e[1].as_bool()))).collect(),
            ),
            "get_config" => Call::GetConfig,
            "stats" => Call::Stats,
            _ => return None,
        })
    }
}

fn input_json(dialect: &str, calls: &[Call]) -> Value {
    json!({"dialect": dialect, "calls": calls.iter().map(|c| c.to_json()).collect::<Vec<_>>()})
}

/// what one sequence produced (evaluated on worker threads, merged into the session afterwards)
#[derive(Default)]
struct Outcome {
    op: String,
    imp: String,
    fails: Vec<(String, String)>,
    counts: Vec<String>,
    monitors: Vec<(String, bool)>,
    nontrivial: Vec<String>,
    o_cases: usize,
    samples: Vec<Value>,
}

/// a returned lint, seen through the public API only
struct Returned {
    json: String,
    core: Lint,
    problem_text: String,
}

struct LintResult {
    text: String,
    md: bool,
    lints: Vec<Returned>,
}

fn same_lint(a: &Lint, b: &Lint) -> bool {
    a.span == b.span && a.lint_kind == b.lint_kind && a.message == b.message && a.suggestions == b.suggestions && a.priority == b.priority
}

fn splice(text: &[char], s: usize, e: usize, sg: &Suggestion) -> Vec<char> {
    let mut out: Vec<char> = text[..s].to_vec();
    match sg {
        Suggestion::ReplaceWith(r) => out.extend(r.iter()),
        Suggestion::InsertAfter(r) => {
            out.extend(text[s..e].iter());
            out.extend(r.iter());
        }
        Suggestion::Remove => {}
    }
    out.extend(text[e..].iter());
    out
}

fn wrap(l: WLint) -> Option<Returned> {
    let json = l.to_json();
    let v: Value = serde_json::from_str(&json).ok()?;
    let core: Lint = serde_json::from_value(v["inner"].clone()).ok()?;
    Some(Returned { json, core, problem_text: l.get_problem_text() })
}

/// O on one returned list: in range, sorted and pairwise disjoint, problem text, accessors, JSON
fn check_returned(out: &mut Outcome, text: &str, md: bool, real: &[WLint]) {
    let cs: Vec<char> = text.chars().collect();
    let mut prev_end = 0usize;
    for (i, l) in real.iter().enumerate() {
        let sp = l.span();
        if !(sp.start <= sp.end && sp.end <= cs.len()) {
            out.fails.push(("out-of-range".into(), format!("lint {} span {}..{} does not lie inside the text of {} chars", i, sp.start, sp.end, cs.len())));
            return;
        }
        if i > 0 && sp.start < prev_end {
            out.fails.push(("overlap".into(), format!("lint {} ({}..{}) starts before the previous lint ends ({})", i, sp.start, sp.end, prev_end)));
            return;
        }
        prev_end = sp.end;
        let want: String = cs[sp.start..sp.end].iter().collect();
        if l.get_problem_text() != want {
            out.fails.push(("problem-text".into(), format!("lint {} problem_text {:?} but the text at {}..{} is {:?}", i, l.get_problem_text(), sp.start, sp.end, want)));
            return;
        }
        // JSON round trips (serde derives: monitored, and a failure is a failure of the property)
        let j = l.to_json();
        match WLint::from_json(j.clone()) {
            Ok(back) => {
                let ok = back.to_json() == j
                    && back.span().start == sp.start
                    && back.span().end == sp.end
                    && back.message() == l.message()
                    && back.get_problem_text() == l.get_problem_text()
                    && back.lint_kind() == l.lint_kind()
                    && back.suggestion_count() == l.suggestion_count();
                if !ok {
                    out.fails.push(("json-lint".into(), format!("Lint JSON round trip changed lint {}: {}", i, trunc(&j, 200))));
                    return;
                }
            }
            Err(e) => {
                out.fails.push(("json-lint".into(), format!("Lint::from_json rejects Lint::to_json: {} ({})", trunc(&j, 200), e)));
                return;
            }
        }
        let sj = sp.to_json();
        match WSpan::from_json(sj.clone()) {
            Ok(b) if b.start == sp.start && b.end == sp.end && b.len() == sp.end - sp.start && b.is_empty() == (sp.start == sp.end) => {}
            _ => {
                out.fails.push(("json-span".into(), format!("Span JSON round trip changed {}", sj)));
                return;
            }
        }
        if l.suggestions().len() != l.suggestion_count() {
            out.fails.push(("accessors".into(), "suggestions().len() != suggestion_count()".into()));
            return;
        }
        for s in l.suggestions() {
            let j = s.to_json();
            match WSuggestion::from_json(j.clone()) {
                Ok(b) if b.to_json() == j && b.get_replacement_text() == s.get_replacement_text() && (b.kind() as u8) == (s.kind() as u8) => {}
                _ => {
                    out.fails.push(("json-suggestion".into(), format!("Suggestion JSON round trip changed {}", trunc(&j, 200))));
                    return;
                }
            }
        }
        out.o_cases += 1;
    }
    let _ = md;
}

fn sugg_of(s: &WSuggestion) -> Suggestion {
    let cs: Vec<char> = s.get_replacement_text().chars().collect();
    match s.kind() {
        SuggestionKind::Replace => Suggestion::ReplaceWith(cs),
        SuggestionKind::Remove => Suggestion::Remove,
        SuggestionKind::InsertAfter => Suggestion::InsertAfter(cs),
    }
}

fn sugg_word(s: &Suggestion) -> String {
    let mut v = vec![];
    match s {
        Suggestion::ReplaceWith(cs) => {
            v.push(0);
            v.extend(cs.iter().map(|c| *c as usize));
        }
        Suggestion::InsertAfter(cs) => {
            v.push(1);
            v.extend(cs.iter().map(|c| *c as usize));
        }
        Suggestion::Remove => v.push(2),
    }
    commas(&v)
}

fn sorted_words(mut ws: Vec<String>) -> Vec<String> {
    ws.sort_by(|a, b| a.chars().map(|c| c as u32).collect::<Vec<_>>().cmp(&b.chars().map(|c| c as u32).collect::<Vec<_>>()));
    ws
}

fn cfg_some(json: &str) -> BTreeMap<String, bool> {
    let v: BTreeMap<String, Option<bool>> = serde_json::from_str(json).unwrap_or_default();
    v.into_iter().filter_map(|(k, v)| v.map(|b| (k, b))).collect()
}

/// One sequence on one real Linter: the K line, and the property on the real outputs.
fn eval(dialect: &str, calls: &[Call], origin: &str) -> Outcome {
    let mut out = Outcome::default();
    let mut enc = Enc::default();
    let mut real = WLinter::new(wdialect(dialect));
    // the reference for the ignore clause: same words and config, never ignores
    let mut refl = WLinter::new(wdialect(dialect));
    let mut hist: Vec<Vec<String>> = vec![vec![]];
    let mut results: Vec<Option<LintResult>> = vec![];
    let mut exports: Vec<String> = vec![];
    let mut snaps: Vec<HashSet<String>> = vec![];
    let mut ignored_keys: HashSet<String> = HashSet::new();
    let mut hash_no: HashMap<u64, usize> = HashMap::new();
    let mut ops: Vec<String> = vec![];
    let mut imps: Vec<String> = vec![];
    let mut applied = 0usize;
    // bookkeeping for the classification of the two dictionary findings
    let mut stale = false; // export_words() changed without growing: case-only re-import
    let mut imported_after_ignore: Vec<String> = vec![];
    let mut any_ignore = false;
    let mut lint_texts: Vec<(String, bool)> = vec![];
    out.counts.push(format!("origin:{}", origin));
    out.counts.push(format!("dialect:{}", dialect));
    out.counts.push(format!("calls:{}", calls.len().min(12)));

    'seq: for call in calls {
        let cur_words = hist.last().unwrap().clone();
        match call {
            Call::Lint { text, md } => {
                let cfg = real.get_lint_config_as_json();
                let mut groups = vec![];
                let mut cur_doc = None;
                let mut cur_raw = vec![];
                for ws in hist.clone().iter() {
                    match shadow_lint(dialect, ws, &cfg, text, *md) {
                        Ok((doc, raw)) => {
                            groups.push(format!("{} | {} | {}", enc.dict(ws), enc.lints(&raw), enc.tokens(&doc)));
                            if *ws == cur_words {
                                cur_raw = raw;
                                cur_doc = Some(doc);
                            }
                        }
                        Err(_) => {
                            // the rule set itself panics on this text: C01's business
                            out.counts.push("pipeline-panic".into());
                            results.push(None);
                            break 'seq;
                        }
                    }
                }
                let cur_doc = cur_doc.unwrap();
                ops.push(format!("L {} | {} | {}", *md as u8, cps(text), groups.join(" | ")));
                let r = guarded(|| real.lint(text.clone(), lang(*md)));
                let rl = match r {
                    Ok(v) => v,
                    Err(m) => {
                        imps.push("P".into());
                        out.fails.push(("panic".into(), format!("Linter::lint panicked although LintGroup::lint on the same document does not: {}", trunc(&m, 160))));
                        results.push(None);
                        break 'seq;
                    }
                };
                check_returned(&mut out, text, *md, &rl);
                // linting overlays the curated config and must put the user's config back
                if real.get_lint_config_as_json() != cfg {
                    out.fails.push(("lint-changes-config".into(), "get_lint_config_as_json() differs before and after lint()".into()));
                }
                let ret: Vec<Returned> = rl.into_iter().filter_map(wrap).collect();
                imps.push(
                    format!(
                        "L {}",
                        ret.iter()
                            .map(|r| {
                                let pt: Vec<usize> = r.problem_text.chars().map(|c| c as usize).collect();
                                format!("{}:{}:{}:{}", r.core.span.start, r.core.span.end, enc.pid(&r.core), commas(&pt))
                            })
                            .collect::<Vec<_>>()
                            .join(" ")
                    )
                    .trim_end()
                    .to_string(),
                );
                // how interesting is this text for the overlap clause
                let mut dd = cur_raw.clone();
                remove_overlaps(&mut dd);
                if dd.len() < cur_raw.len() {
                    out.counts.push("lint:raw-lints-overlap".into());
                }
                out.counts.push(format!("lint:returned:{}", ret.len().min(6)));
                out.counts.push(format!("lint:{}", if *md { "markdown" } else { "plain" }));
                // nothing invented: every returned lint is a raw lint of the rule set
                for r in &ret {
                    if !cur_raw.iter().any(|x| same_lint(x, &r.core)) && !stale {
                        out.fails.push(("invented".into(), format!("returned lint {}..{} {:?} is not among the rule set's lints for this document", r.core.span.start, r.core.span.end, r.core.message)));
                    }
                }
                // the ignore clause: exactly the reference result minus the ignored contexts
                match guarded(|| refl.lint(text.clone(), lang(*md))) {
                    Ok(rf) => {
                        let rf: Vec<Returned> = rf.into_iter().filter_map(wrap).collect();
                        let expect: Vec<&Returned> = rf.iter().filter(|r| !ignored_keys.contains(&okey(&cur_doc, &r.core))).collect();
                        let same = expect.len() == ret.len() && expect.iter().zip(ret.iter()).all(|(a, b)| same_lint(&a.core, &b.core) && a.problem_text == b.problem_text);
                        if any_ignore {
                            out.o_cases += 1;
                            if expect.len() < rf.len() && !expect.is_empty() {
                                out.nontrivial.push(format!("ign|{}|{}|{:?}", text, md, ignored_keys.len()));
                            }
                        }
                        if !same {
                            let show = |v: &[&Returned]| v.iter().map(|r| format!("{}..{} {:?}", r.core.span.start, r.core.span.end, r.core.message)).collect::<Vec<_>>();
                            let got: Vec<&Returned> = ret.iter().collect();
                            let desc = format!(
                                "lint({:?}) returns {:?}; a linter with the same words and config that never ignored anything returns {:?}, of which the ignored contexts leave {:?}",
                                trunc(text, 80),
                                show(&got),
                                show(&rf.iter().collect::<Vec<_>>()),
                                show(&expect)
                            );
                            // narrow matcher of the recorded finding: the only difference is that ignored
                            // lints are back, and each of them has, in one of its three context windows, a
                            // word that import_words added to the dictionary after an ignore
                            let only_returns = got.len() > expect.len()
                                && expect.iter().all(|e| got.iter().any(|g| same_lint(&g.core, &e.core)))
                                && got.iter().all(|g| rf.iter().any(|r| same_lint(&r.core, &g.core)));
                            let back: Vec<&&Returned> = got.iter().filter(|g| !expect.iter().any(|e| same_lint(&g.core, &e.core))).collect();
                            let all_explained = back.iter().all(|g| window_words(&cur_doc, &g.core).iter().any(|w| imported_after_ignore.contains(w)));
                            if only_returns && all_explained {
                                out.fails.push((CLASS_IGNORE_DICT.into(), desc));
                            } else {
                                out.fails.push(("ignore-not-exact".into(), desc));
                            }
                        }
                    }
                    Err(_) => out.counts.push("reference-panic".into()),
                }
                lint_texts.push((text.clone(), *md));
                results.push(Some(LintResult { text: text.clone(), md: *md, lints: ret }));
                continue;
            }
            Call::Apply { from, lint, sugg, text } => {
                let Some(Some(res)) = results.get(*from) else {
                    results.push(None);
                    continue;
                };
                if res.lints.is_empty() {
                    results.push(None);
                    continue;
                }
                let r = &res.lints[*lint % res.lints.len()];
                let wl = match WLint::from_json(r.json.clone()) {
                    Ok(l) => l,
                    Err(_) => {
                        results.push(None);
                        continue;
                    }
                };
                let suggs = wl.suggestions();
                if suggs.is_empty() {
                    results.push(None);
                    continue;
                }
                let ws = &suggs[*sugg % suggs.len()];
                let sg = sugg_of(ws);
                let text = text.clone().unwrap_or(res.text.clone());
                let (s, e) = (r.core.span.start, r.core.span.end);
                ops.push(format!("A | {} | {} {} | {}", cps(&text), s, e, sugg_word(&sg)));
                let got = guarded(|| real.apply_suggestion(text.clone(), &wl, ws));
                let cs: Vec<char> = text.chars().collect();
                match got {
                    Ok(Ok(t)) => {
                        applied += 1;
                        imps.push(format!("T {}", cps(&t)).trim_end().to_string());
                        if s <= e && e <= cs.len() {
                            out.o_cases += 1;
                            let want: String = splice(&cs, s, e, &sg).into_iter().collect();
                            if want != t {
                                out.fails.push(("apply-not-local".into(), format!("apply_suggestion({:?}, {}..{}, {:?}) = {:?}, the splice is {:?}", trunc(&text, 80), s, e, sg, trunc(&t, 80), trunc(&want, 80))));
                            }
                            out.counts.push("apply:in-range".into());
                        } else {
                            out.counts.push("apply:span-outside-text".into());
                        }
                    }
                    Ok(Err(m)) => {
                        imps.push("E".into());
                        out.fails.push(("apply-error".into(), format!("apply_suggestion returned Err({})", m)));
                    }
                    Err(m) => {
                        applied += 1; // the record is pushed before the edit
                        imps.push("P".into());
                        if s <= e && e <= cs.len() {
                            out.fails.push(("panic".into(), format!("apply_suggestion panicked on a span inside the text: {}", trunc(&m, 160))));
                        }
                        out.counts.push("apply:panic".into());
                        results.push(None);
                        break 'seq;
                    }
                }
            }
            Call::Ignore { from, lint, text } => {
                let Some(Some(res)) = results.get(*from) else {
                    results.push(None);
                    continue;
                };
                if res.lints.is_empty() {
                    results.push(None);
                    continue;
                }
                let r = &res.lints[*lint % res.lints.len()];
                let Ok(wl) = WLint::from_json(r.json.clone()) else {
                    results.push(None);
                    continue;
                };
                let md = res.md;
                let text = text.clone().unwrap_or(res.text.clone());
                let mut groups = vec![];
                let mut cur_doc = None;
                for ws in hist.clone().iter() {
                    match shadow_doc(dialect, ws, &text, md) {
                        Ok(doc) => {
                            groups.push(format!("{} | {}", enc.dict(ws), enc.tokens(&doc)));
                            if *ws == cur_words {
                                cur_doc = Some(doc);
                            }
                        }
                        Err(_) => {
                            out.counts.push("pipeline-panic".into());
                            results.push(None);
                            break 'seq;
                        }
                    }
                }
                ops.push(format!("I {} | {}", enc.lint(&r.core), groups.join(" | ")));
                let before = hashes_of_export(&real.export_ignored_lints());
                if let Err(m) = guarded(|| real.ignore_lint(text.clone(), wl)) {
                    imps.push("P".into());
                    out.fails.push(("panic".into(), format!("ignore_lint panicked: {}", trunc(&m, 160))));
                    results.push(None);
                    break 'seq;
                }
                imps.push("U".into());
                let after = hashes_of_export(&real.export_ignored_lints());
                for h in after.iter().filter(|h| !before.contains(h)) {
                    let n = hash_no.len();
                    hash_no.entry(*h).or_insert(n);
                }
                if after.len() > before.len() + 1 || after.len() < before.len() {
                    out.fails.push(("ignore-set-size".into(), "ignore_lint changed the ignore list by other than at most one entry".into()));
                }
                ignored_keys.insert(okey(&cur_doc.unwrap(), &r.core));
                any_ignore = true;
                out.counts.push(if res.text == text { "ignore:same-text".into() } else { "ignore:other-text".into() });
            }
            Call::ExportIgnored => {
                ops.push("XI".into());
                let s = real.export_ignored_lints();
                let hs = hashes_of_export(&s);
                let mut nos: Vec<String> = vec![];
                let mut ns: Vec<usize> = hs.iter().map(|h| hash_no.get(h).copied().unwrap_or(usize::MAX)).collect();
                ns.sort();
                for n in ns {
                    nos.push(if n == usize::MAX { "?".into() } else { n.to_string() });
                }
                imps.push(format!("X {}", nos.join(" ")).trim_end().to_string());
                exports.push(s);
                snaps.push(ignored_keys.clone());
            }
            Call::ImportIgnored { k } => {
                if exports.is_empty() {
                    results.push(None);
                    continue;
                }
                let k = *k % exports.len();
                ops.push(format!("II {}", k));
                match real.import_ignored_lints(exports[k].clone()) {
                    Ok(()) => imps.push("U".into()),
                    Err(e) => {
                        imps.push("E".into());
                        out.fails.push(("import-rejects-export".into(), format!("import_ignored_lints rejects export_ignored_lints's output: {}", e)));
                    }
                }
                ignored_keys.extend(snaps[k].iter().cloned());
                if !snaps[k].is_empty() {
                    any_ignore = true;
                }
            }
            Call::ClearIgnored => {
                ops.push("CI".into());
                real.clear_ignored_lints();
                imps.push("U".into());
                ignored_keys.clear();
            }
            Call::ImportWords(ws) => {
                let words: Vec<String> = ws.iter().map(|w| enc.word(w, &mut out.monitors)).collect();
                ops.push(format!("IW {}", words.join(" ")).trim_end().to_string());
                let before = sorted_words(real.export_words());
                real.import_words(ws.clone());
                refl.import_words(ws.clone());
                imps.push("U".into());
                let now = sorted_words(real.export_words());
                // O: every imported word is exported (in the spelling imported last for its WordId)
                let mut last: HashMap<WordId, &String> = HashMap::new();
                for w in ws {
                    last.insert(WordId::from_word_chars(w.chars().collect::<Vec<char>>()), w);
                }
                out.o_cases += 1;
                for w in last.values() {
                    if !now.contains(w) {
                        out.fails.push(("word-not-exported".into(), format!("import_words([.., {:?}, ..]) but export_words() = {:?}", w, now)));
                    }
                }
                if now != before {
                    if now.len() == before.len() {
                        stale = true;
                        out.counts.push("words:case-only-reimport".into());
                    }
                    if any_ignore {
                        imported_after_ignore.extend(ws.iter().map(|w| w.to_lowercase()));
                    }
                    if !hist.contains(&now) {
                        hist.push(now);
                    } else {
                        // keep "current = last"
                        let p = hist.iter().position(|h| *h == now).unwrap();
                        let h = hist.remove(p);
                        hist.push(h);
                    }
                }
            }
            Call::ExportWords => {
                ops.push("XW".into());
                let ws = sorted_words(real.export_words());
                imps.push(format!("W {}", ws.iter().map(|w| commas(&w.chars().map(|c| c as usize).collect::<Vec<_>>())).collect::<Vec<_>>().join(" ")).trim_end().to_string());
            }
            Call::SetConfig(es) => {
                let mut m = serde_json::Map::new();
                for (k, v) in es {
                    m.insert(k.clone(), match v {
                        Some(b) => Value::Bool(*b),
                        None => Value::Null,
                    });
                }
                // a JSON object: one entry per key, in key order
                let entries: Vec<String> = m
                    .iter()
                    .map(|(k, v)| format!("{}:{}", enc.rule(k), match v.as_bool() {
                        Some(true) => "1",
                        Some(false) => "0",
                        None => "n",
                    }))
                    .collect();
                ops.push(format!("SC {}", entries.join(" ")).trim_end().to_string());
                let j = Value::Object(m).to_string();
                let j2 = j.clone();
                let before = cfg_some(&real.get_lint_config_as_json());
                match real.set_lint_config_from_json(j.clone()) {
                    Ok(()) => imps.push("U".into()),
                    Err(e) => {
                        imps.push("E".into());
                        out.fails.push(("set-config-error".into(), format!("set_lint_config_from_json({}) = Err({})", trunc(&j, 100), e)));
                    }
                }
                let _ = refl.set_lint_config_from_json(j);
                // O: exactly the non-null entries are set, nothing else changes
                let after = cfg_some(&real.get_lint_config_as_json());
                let mut want = before.clone();
                let sent: BTreeMap<String, Option<bool>> = serde_json::from_str(&j2).unwrap_or_default();
                for (k, v) in &sent {
                    if let Some(b) = v {
                        want.insert(k.clone(), *b);
                    }
                }
                out.o_cases += 1;
                if want != after {
                    out.fails.push(("set-config-effect".into(), "set_lint_config_from_json did not set exactly the non-null entries".into()));
                }
            }
            Call::GetConfig => {
                ops.push("GC".into());
                let c = cfg_some(&real.get_lint_config_as_json());
                let mut es: Vec<(usize, bool)> = c.iter().map(|(k, v)| (enc.rule(k), *v)).collect();
                es.sort();
                imps.push(format!("C {}", es.iter().map(|(k, v)| format!("{}:{}", k, *v as u8)).collect::<Vec<_>>().join(" ")).trim_end().to_string());
            }
            Call::Stats => {
                ops.push("ST".into());
                let n = real.generate_stats_file().lines().count();
                imps.push(format!("N {}", n));
                out.o_cases += 1;
                if n != applied {
                    out.fails.push(("stats-count".into(), format!("{} suggestions applied, {} records in the stats file", applied, n)));
                }
            }
        }
        results.push(None);
    }

    // ---- export → import into a FRESH linter restores the behaviour (ignore list, words, config) ----
    if !lint_texts.is_empty() {
        let r = guarded(|| {
            let mut fresh = WLinter::new(wdialect(dialect));
            fresh.import_words(real.export_words());
            let cfg = real.get_lint_config_as_json();
            let cfg_ok = fresh.set_lint_config_from_json(cfg.clone()).is_ok() && fresh.get_lint_config_as_json() == cfg;
            let ig = real.export_ignored_lints();
            let ig_ok = fresh.import_ignored_lints(ig.clone()).is_ok() && hashes_of_export(&fresh.export_ignored_lints()) == hashes_of_export(&ig);
            let words_ok = sorted_words(fresh.export_words()) == sorted_words(real.export_words());
            let mut diffs = vec![];
            for (t, md) in lint_texts.iter().rev().take(3) {
                let a: Vec<Returned> = real.lint(t.clone(), lang(*md)).into_iter().filter_map(wrap).collect();
                let b: Vec<Returned> = fresh.lint(t.clone(), lang(*md)).into_iter().filter_map(wrap).collect();
                let same = a.len() == b.len() && a.iter().zip(b.iter()).all(|(x, y)| same_lint(&x.core, &y.core) && x.problem_text == y.problem_text);
                if !same {
                    let show = |v: &[Returned]| v.iter().map(|r| format!("{}..{} {:?}", r.core.span.start, r.core.span.end, r.core.message)).collect::<Vec<_>>();
                    diffs.push(format!("lint({:?}): original {:?}, fresh linter after import {:?}", trunc(t, 80), show(&a), show(&b)));
                }
            }
            (cfg_ok, ig_ok, words_ok, diffs)
        });
        match r {
            Ok((cfg_ok, ig_ok, words_ok, diffs)) => {
                out.o_cases += 1;
                if !cfg_ok {
                    out.fails.push(("config-roundtrip".into(), "get_lint_config_as_json → set_lint_config_from_json on a fresh linter → get differs".into()));
                }
                if !ig_ok {
                    out.fails.push(("ignored-roundtrip".into(), "export_ignored_lints → import_ignored_lints on a fresh linter → export differs".into()));
                }
                if !words_ok {
                    out.fails.push(("words-roundtrip".into(), "export_words → import_words on a fresh linter → export_words differs".into()));
                }
                if let Some(d) = diffs.first() {
                    let desc = format!("after exporting words, config and ignore list into a fresh linter: {}", d);
                    // narrow matcher: the sequence re-imported a word in another capitalisation without
                    // adding a word (export_words() changed, its length did not)
                    if stale {
                        out.fails.push((CLASS_STALE.into(), desc));
                    } else {
                        out.fails.push(("export-import-differs".into(), desc));
                    }
                }
                if !ignored_keys.is_empty() || hist.len() > 1 {
                    out.nontrivial.push(format!("x|{:?}|{}|{:?}", lint_texts.last(), ignored_keys.len(), hist.last()));
                }
            }
            Err(_) => out.counts.push("fresh-linter-panic".into()),
        }
    }
    out.op = format!("wasm {}", ops.join(" ;; "));
    out.imp = format!("ok {}", imps.join(" ;; "));
    if ops.is_empty() {
        out.op.clear();
    }
    out
}

fn merge(sess: &mut Session, dialect: &str, calls: &[Call], o: Outcome) {
    let case = if o.op.is_empty() { None } else { Some(sess.k(&o.op, &o.imp)) };
    for c in &o.counts {
        sess.count(c);
    }
    for (k, held) in &o.monitors {
        sess.monitor(k, *held);
    }
    for k in &o.nontrivial {
        sess.nontrivial(k);
    }
    for _ in 0..o.o_cases {
        sess.o();
    }
    for v in o.samples {
        sess.sample(v);
    }
    let input = input_json(dialect, calls);
    for (class, desc) in o.fails {
        sess.fail(&class, desc, input.clone(), case);
    }
}

// ---------------------------------------------------------------------------------------------
// generation
// ---------------------------------------------------------------------------------------------

const NONWORDS: &[&str] = &["zqxv", "Zqxv", "ZQXV", "blorft", "Blorft", "problm", "Problm", "scond", "qwertz", "naïvety", "zqxw"];
const RULES: &[&str] = &["SpellCheck", "AnA", "SentenceCapitalization", "RepeatedWords", "LongSentences", "UnclosedQuotes", "Spaces", "Matcher", "SpelledNumbers", "NoSuchRule"];

fn gen_text(rng: &mut Rng, sents: &[String], overlapping: &[String]) -> String {
    let mut t = match rng.below(10) {
        0..=2 if !overlapping.is_empty() => rng.pick(overlapping).clone(),
        3 => {
            let s = rng.pick(sents).clone();
            format!("{} {}", s, s)
        }
        4 => format!("\"{}\" she said.", rng.pick(sents)),
        5 => format!("There is an {} in this text. I saw a elephant.", rng.pick(NONWORDS)),
        6 => format!("{} {}", rng.pick(NONWORDS), rng.pick(sents)),
        _ => crate::textgen::prose(rng),
    };
    if rng.chance(1, 5) {
        t = crate::textgen::mutate(rng, &t);
    }
    if rng.chance(1, 6) {
        // a non-word next to the start, so that imported words sit in other lints' windows
        let cs: Vec<char> = t.chars().collect();
        let spaces: Vec<usize> = cs.iter().enumerate().filter(|(_, c)| **c == ' ').map(|(i, _)| i).collect();
        if !spaces.is_empty() {
            let at = *rng.pick(&spaces);
            let mut v: Vec<char> = cs[..at].to_vec();
            v.push(' ');
            v.extend(rng.pick(NONWORDS).chars());
            v.extend(cs[at..].iter());
            t = v.into_iter().collect();
        }
    }
    let n = t.chars().count();
    if n > 400 { t.chars().take(400).collect() } else { t }
}

fn gen_seq(rng: &mut Rng, sents: &[String], overlapping: &[String]) -> Vec<Call> {
    let n = rng.range(3, 12);
    let mut calls: Vec<Call> = vec![];
    let mut lint_calls: Vec<usize> = vec![];
    let mut texts: Vec<(String, bool)> = vec![];
    let mut n_exports = 0;
    let t0 = gen_text(rng, sents, overlapping);
    let md0 = rng.chance(1, 3);
    texts.push((t0, md0));
    for i in 0..n {
        let c = if lint_calls.is_empty() || i == n - 1 {
            let (t, md) = rng.pick(&texts).clone();
            Call::Lint { text: t, md }
        } else {
            match rng.below(20) {
                0..=4 => {
                    let (t, md) = if rng.chance(2, 3) {
                        rng.pick(&texts).clone()
                    } else {
                        let t = (gen_text(rng, sents, overlapping), rng.chance(1, 3));
                        texts.push(t.clone());
                        t
                    };
                    // now and then the same text in the other language
                    let md = if rng.chance(1, 8) { !md } else { md };
                    Call::Lint { text: t, md }
                }
                5..=8 => Call::Ignore {
                    from: *rng.pick(&lint_calls),
                    lint: rng.below(8),
                    text: if rng.chance(1, 10) { Some(rng.pick(&texts).0.clone()) } else { None },
                },
                9..=10 => Call::Apply {
                    from: *rng.pick(&lint_calls),
                    lint: rng.below(8),
                    sugg: rng.below(4),
                    text: if rng.chance(1, 12) { Some(rng.pick(&texts).0.chars().take(rng.below(30)).collect()) } else { None },
                },
                11 => {
                    n_exports += 1;
                    Call::ExportIgnored
                }
                12 => {
                    if n_exports > 0 {
                        Call::ImportIgnored { k: rng.below(n_exports) }
                    } else {
                        n_exports += 1;
                        Call::ExportIgnored
                    }
                }
                13 => Call::ClearIgnored,
                14..=15 => {
                    let k = rng.range(1, 2);
                    let mut ws = vec![];
                    for _ in 0..k {
                        if rng.chance(2, 3) {
                            ws.push(rng.pick(NONWORDS).to_string());
                        } else {
                            // a word of one of the texts (often a neighbour of some lint)
                            let t = &rng.pick(&texts).0;
                            let words: Vec<&str> = t.split(|c: char| !c.is_alphanumeric()).filter(|w| !w.is_empty()).collect();
                            if !words.is_empty() {
                                ws.push(rng.pick(&words).to_string());
                            } else {
                                ws.push("zqxv".to_string());
                            }
                        }
                    }
                    Call::ImportWords(ws)
                }
                16 => Call::ExportWords,
                17 => {
                    let k = rng.range(1, 3);
                    let es = (0..k)
                        .map(|_| {
                            (rng.pick(RULES).to_string(), match rng.below(5) {
                                0 => None,
                                1 | 2 => Some(true),
                                _ => Some(false),
                            })
                        })
                        .collect();
                    Call::SetConfig(es)
                }
                18 => Call::GetConfig,
                _ => Call::Stats,
            }
        };
        if let Call::Lint { .. } = c {
            lint_calls.push(calls.len());
        }
        calls.push(c);
    }
    calls
}

/// sentences whose raw lints overlap (remove_overlaps drops something), found with the real rules
fn find_overlapping(sents: &[String], max: usize) -> Vec<String> {
    let mut out = vec![];
    let cfg = "{}";
    for s in sents.iter() {
        if let Ok((_, raw)) = shadow_lint("American", &[], cfg, s, false) {
            let mut dd = raw.clone();
            remove_overlaps(&mut dd);
            if dd.len() < raw.len() && !dd.is_empty() {
                out.push(s.clone());
                if out.len() >= max {
                    break;
                }
            }
        }
    }
    out
}

/// O only: single-word custom dictionary behaviour on separate linters
fn words_oracle(sess: &mut Session, rng: &mut Rng) {
    for d in DIALECTS {
        let mut l = WLinter::new(wdialect(d));
        for w in ["zqxv", "blorft", "Qwertz", "naïvety", "xkcdish"] {
            sess.o();
            let text = format!("The {} is here.", w);
            let flagged = |l: &mut WLinter| l.lint(text.clone(), Language::Plain).iter().any(|x| x.lint_kind() == "Spelling" && x.get_problem_text() == w);
            let before = flagged(&mut l);
            l.import_words(vec![w.to_string()]);
            let after = flagged(&mut l);
            let exported = l.export_words().contains(&w.to_string());
            sess.count(if before { "words:flagged-before-import" } else { "words:not-flagged-before-import" });
            if after || !exported {
                sess.fail(
                    "imported-word-flagged",
                    format!("after import_words([{:?}]): flagged = {}, export_words contains it = {}", w, after, exported),
                    json!({"dialect": d, "calls": [{"op": "import_words", "words": [w]}, {"op": "lint", "text": text, "md": false}]}),
                    None,
                );
            }
        }
        let _ = rng.next();
    }
    // module-level JSON helpers are well-formed and agree on the rule names
    sess.o();
    let l = WLinter::new(WDialect::American);
    let cfg: Result<BTreeMap<String, Option<bool>>, _> = serde_json::from_str(&l.get_lint_config_as_json());
    let def: Result<BTreeMap<String, Option<bool>>, _> = serde_json::from_str(&harper_wasm::get_default_lint_config_as_json());
    let desc: Result<BTreeMap<String, String>, _> = serde_json::from_str(&l.get_lint_descriptions_as_json());
    match (cfg, def, desc) {
        (Ok(c), Ok(d), Ok(ds)) => {
            let kc: BTreeSet<&String> = c.keys().collect();
            let kd: BTreeSet<&String> = d.keys().collect();
            let ks: BTreeSet<&String> = ds.keys().collect();
            if kc != kd || kc != ks || c.values().any(|v| v.is_some()) || d.values().any(|v| v.is_none()) {
                sess.fail("config-helpers", "config / default config / descriptions disagree on the rule names, or a fresh config is not all-null".into(), json!({"calls": []}), None);
            }
        }
        _ => sess.fail("config-helpers", "a JSON helper returns something that is not a JSON map".into(), json!({"calls": []}), None),
    }
    // invalid input is rejected with Err, not a panic, and changes nothing
    sess.o();
    let mut l = WLinter::new(WDialect::American);
    let c0 = l.get_lint_config_as_json();
    let i0 = l.export_ignored_lints();
    let r = guarded(|| (l.set_lint_config_from_json("{not json".into()).is_err(), l.import_ignored_lints("[1,2".into()).is_err(), WLint::from_json("{}".into()).is_err()));
    if r != Ok((true, true, true)) || l.get_lint_config_as_json() != c0 || l.export_ignored_lints() != i0 {
        sess.fail("invalid-json", "malformed JSON is not rejected cleanly".into(), json!({"calls": []}), None);
    }
}

pub fn run(ctx: &Ctx) {
    let mut sess = Session::new(ctx);
    let mut rng = Rng::new(ctx.seed);
    if let Some(v) = replay_input(ctx) {
        let dialect = v["dialect"].as_str().unwrap_or("American").to_string();
        let calls: Vec<Call> = v["calls"].as_array().map(|a| a.iter().filter_map(Call::from_json).collect()).unwrap_or_default();
        let o = eval(&dialect, &calls, "replay");
        merge(&mut sess, &dialect, &calls, o);
        sess.nontrivial("replay-a");
        sess.nontrivial("replay-b");
        sess.finish("replay of one recorded call sequence", false, json!({}));
        return;
    }
    let sents = crate::corpus::sentences().clone();
    let overlapping = find_overlapping(&sents, 60);
    sess.add("texts-with-overlapping-raw-lints-found", overlapping.len() as u64);

    let lint = |t: &str| Call::Lint { text: t.to_string(), md: false };
    let ign = |from: usize, l: usize| Call::Ignore { from, lint: l, text: None };
    let iw = |w: &str| Call::ImportWords(vec![w.to_string()]);

    // 1. corpus: the witnesses first
    let mut corpus: Vec<(String, Vec<Call>)> = vec![];
    // the recorded finding: case-only re-import leaves the dictionary in force stale
    corpus.push(("American".into(), vec![iw("zqxv"), iw("Zqxv"), Call::ExportWords, lint("zqxv"), lint("The zqxv and the Zqxv and the ZQXV.")]));
    corpus.push(("British".into(), vec![iw("Zqxv"), iw("zqxv"), Call::ExportWords, lint("The zqxv and the Zqxv and the ZQXV.")]));
    corpus.push(("American".into(), vec![iw("zqxv"), iw("Zqxv"), iw("blorft"), Call::ExportWords, lint("The zqxv and the Zqxv and the ZQXV.")]));
    // an ignored lint whose window holds a word that is then added to the dictionary
    corpus.push(("American".into(), vec![lint("an zqxw here"), ign(0, 0), lint("an zqxw here"), iw("zqxw"), lint("an zqxw here")]));
    corpus.push(("American".into(), vec![lint("We saw an zqxw here."), ign(0, 0), ign(0, 1), lint("We saw an zqxw here."), iw("zqxw"), lint("We saw an zqxw here."), iw("saw"), lint("We saw an zqxw here.")]));
    // overlapping raw lints: ignore each returned lint in turn; nothing may be resurrected
    for (i, t) in overlapping.iter().take(12).enumerate() {
        let d = DIALECTS[i % 4];
        corpus.push((d.into(), vec![lint(t), ign(0, 0), lint(t), Call::ExportIgnored, ign(0, 1), lint(t), Call::ClearIgnored, lint(t), Call::ImportIgnored { k: 0 }, lint(t)]));
        corpus.push((d.into(), vec![Call::Lint { text: t.clone(), md: true }, ign(0, 1), Call::Lint { text: t.clone(), md: true }, ign(0, 0), Call::Lint { text: t.clone(), md: true }]));
    }
    // twin contexts, quotes, apply, config
    for t in [
        "There is a problm in this text. There is a problm in this text.",
        "There is a problm in this text. There is a problm of this text.",
        "Well, \"Ths\" is bad. He said \"an apple\" and \"an banana\".",
        "I saw a elephant and a elephant saw me.",
        "There is an problem in this text. Here is an second one.",
        "This is an test of the the harness.",
    ] {
        corpus.push(("American".into(), vec![
            lint(t), Call::Apply { from: 0, lint: 0, sugg: 0, text: None }, ign(0, 0), lint(t), Call::ExportIgnored, Call::ClearIgnored, lint(t),
            Call::ImportIgnored { k: 0 }, lint(t), Call::Apply { from: 3, lint: 0, sugg: 1, text: None }, Call::Stats,
        ]));
        corpus.push(("Australian".into(), vec![
            lint(t), Call::SetConfig(vec![("SpellCheck".into(), Some(false)), ("AnA".into(), None)]), lint(t), Call::GetConfig,
            Call::SetConfig(vec![("AnA".into(), Some(false)), ("NoSuchRule".into(), Some(true))]), lint(t), Call::GetConfig, iw("problm"), lint(t), Call::GetConfig,
        ]));
    }
    // a lint of one text ignored "in" another text; a span outside the text applied
    corpus.push(("Canadian".into(), vec![
        lint("I saw a elephant."), Call::Ignore { from: 0, lint: 0, text: Some("A elephant.".into()) }, lint("I saw a elephant."), lint("A elephant."),
        Call::Apply { from: 0, lint: 0, sugg: 0, text: Some("I saw".into()) },
    ]));
    for (d, calls) in &corpus {
        let o = eval(d, calls, "corpus");
        merge(&mut sess, d, calls, o);
    }

    // 2. exhaustive small scope: every sequence of ≤ 3 (thorough: ≤ 4) calls over a 7-call alphabet,
    //    each followed by a final `lint`
    let t_small = "an zqxv is an problm.";
    let alphabet: Vec<Call> = vec![
        lint(t_small),
        Call::Ignore { from: 0, lint: 0, text: Some(t_small.into()) },
        Call::Ignore { from: 0, lint: 1, text: Some(t_small.into()) },
        Call::ExportIgnored,
        Call::ImportIgnored { k: 0 },
        Call::ClearIgnored,
        iw("zqxv"),
    ];
    let maxlen = if ctx.tier == Tier::Thorough { 4 } else { 3 };
    let mut small: Vec<Vec<Call>> = vec![];
    for len in 0..=maxlen {
        let total = alphabet.len().pow(len as u32);
        for code in 0..total {
            let mut c = code;
            let mut calls = vec![lint(t_small)];
            for _ in 0..len {
                calls.push(alphabet[c % alphabet.len()].clone());
                c /= alphabet.len();
            }
            calls.push(lint(t_small));
            small.push(calls);
        }
    }
    let threads = std::thread::available_parallelism().map(|n| n.get()).unwrap_or(4).min(12);
    let outs = par_map(small.len(), threads, |i| {
        eval("American", &small[i], "exhaustive")
    });
    for (calls, o) in small.iter().zip(outs) {
        merge(&mut sess, "American", calls, o);
    }

    // 3. structured random
    let nseq = if ctx.tier == Tier::Thorough { 12000 } else { 1200 };
    let seqs: Vec<(String, Vec<Call>)> = (0..nseq)
        .map(|_| {
            let d = DIALECTS[rng.below(4)].to_string();
            (d, gen_seq(&mut rng, &sents, &overlapping))
        })
        .collect();
    let outs = par_map(seqs.len(), threads, |i| {
        eval(&seqs[i].0, &seqs[i].1, "random")
    });
    for ((d, calls), o) in seqs.iter().zip(outs) {
        merge(&mut sess, d, calls, o);
    }

    words_oracle(&mut sess, &mut rng);

    sess.finish(
        "corpus (case-only re-import of a custom word; an ignored lint whose window holds a word added later; texts whose raw lints overlap, each returned lint ignored in turn; twin contexts; quotes; config switches; a lint ignored in another text; a span outside the text); every sequence of ≤3 (quick) / ≤4 (thorough) calls over {lint, ignore lint 0, ignore lint 1, export, import, clear, import_words} between two lint calls, exhaustively; random sequences of 3–12 calls (lint in both languages, ignore, apply, export/import/clear ignored, import/export words, set/get config, stats) on all four dialects over rule-test sentences (1–3, mutated, non-words inserted, sentences with overlapping raw lints preferred). One K case = one whole sequence. Non-trivial = a lint call after an ignore where the reference returns more lints than remain and something remains, or an export→import check with a non-empty ignore list or custom words; distinct by (text, language, ignore-list size).",
        true,
        json!({"exhaustive_scope": format!("all sequences of ≤{} calls over a 7-call alphabet on the text {:?}, between two lint calls", maxlen, t_small)}),
    );
}
