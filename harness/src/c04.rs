//! C04 — only prose is checked, and it is located at its true position in the file.
//! O: files assembled from code | comment | markup segments WITH RECORDED GROUND TRUTH, for every
//!    language id of the server's table; the final `Document` tokens are judged against it.
//! K: the Lean glue models (`Harper.Model.Mask`) against the real glue (see `c04k.rs`).
#[path = "c04gen.rs"]
pub mod cgen;
#[path = "c04k.rs"]
pub mod kglue;

use crate::common::*;
use crate::frontends;
use crate::tokfmt::*;
use cgen::{B, ZK, Zone};
use harper_core::{Document, FstDictionary, Token, TokenKind};
use serde_json::{Value, json};

pub struct Out {
    pub fails: Vec<(String, String)>,
    pub counts: Vec<String>,
    pub words_checked: usize,
    pub panicked: bool,
}

fn allowed_over_nonprose(k: &TokenKind) -> bool {
    matches!(k, TokenKind::Unlintable | TokenKind::Url | TokenKind::Space(_) | TokenKind::Newline(_) | TokenKind::ParagraphBreak)
}

/// Narrow classification of the failures that are recorded findings (known_findings.json).
/// `taints` = risky constructs the generator put into this file (see `c04gen.rs`).
fn classify(front: &str, base: &str, zone: &Zone, text: &[char], taints: &[String]) -> String {
    let has = |t: &str| taints.iter().any(|x| x == t);
    // tree-sitter-c / -cpp: the body of a #define is raw text; `//` or `/*` inside a string literal
    // there starts a comment, and a real comment after the body is swallowed
    if (front == "c" || front == "cpp") && has("c-define-comment-opener") {
        return "c04-c-define-string-comment-opener".into();
    }
    if (front == "c" || front == "cpp") && has("c-define-trailing-comment") && base != "nonprose-offered" && base != "ignored-offered" {
        return "c04-c-define-trailing-comment".into();
    }
    // TSX grammar: `//` or `/*` inside JSX text starts a comment
    if (front == "typescriptreact" || front == "javascriptreact") && has("jsx-text-comment-opener") {
        return "c04-jsx-text-comment-opener".into();
    }
    // Literate Haskell: a blank line inside \begin{code} … \end{code} ends the code environment
    if (front == "lhaskell" || front == "literate haskell")
        && base == "nonprose-offered"
        && (zone.what == "lhs-code-env-after-blank" || zone.what == "lhs-fence-after-blank")
    {
        return "c04-lhs-blank-line-in-code-env".into();
    }
    // Typst: the content of a string literal in code is handed to the English parser (by design
    // of the translator)
    if front == "typst" && base == "nonprose-offered" && zone.what == "let-string" {
        return "c04-typst-string-literal".into();
    }
    // lex_url looks for an `@` in the whole remaining text: a URL followed by any later `@`
    // (an inline tag, an e-mail address) is not recognised as a URL
    if base == "nonprose-offered" && zone.what.starts_with("url") && text[zone.e.min(text.len())..].contains(&'@') {
        return "c04-url-before-at-sign".into();
    }
    // Lua `--[[ … ]]` / CMake `#[[ … ]]` on one line: the brackets read as a Markdown wikilink
    if (front == "lua" || front == "cmake") && zone.what.ends_with("@bracket-single") {
        return "c04-bracket-comment-wikilink".into();
    }
    // JSDoc comments (JS/TS family): every line is parsed on its own, so a Markdown code fence is
    // not recognised (the `Unit` parser of the other languages tracks fences; `JsDoc` does not)
    if matches!(front, "javascript" | "javascriptreact" | "typescript" | "typescriptreact")
        && base == "nonprose-offered"
        && zone.what == "fence-body@comment-fence"
    {
        return "c04-jsdoc-code-fence".into();
    }
    // Go: `//go:x` followed by an empty comment line: `actual.start += terminator` moves the start
    // past the end and `Span::len` underflows in `try_get_content` (panic with overflow checks on)
    if front == "go" && base == "panic" && has("go-directive-empty-tail") {
        return "c04-go-directive-empty-tail-panic".into();
    }
    // Ruby: the words `begin` / `end` of the block comment delimiters are offered as words
    if front == "ruby" && base == "word-in-delimiter" && (zone.what == "block-opener" || zone.what == "block-closer") {
        return "c04-ruby-begin-end-delimiter".into();
    }
    // (w25) Markdown with lone CR as the line terminator (a line ending of CommonMark): pulldown-cmark
    // does not end ATX headings, fenced code blocks, HTML blocks / comments, `$$` blocks and `---`
    // metadata blocks at a lone CR — fence bodies are linted, everything after an HTML block or `~~~` fence is lost
    if front == "markdown" && base != "panic" && base != "out-of-bounds" && lone_cr_blocks(text) {
        return "c04-markdown-lone-cr-blocks".into();
    }
    base.to_string()
}

/// the text ends lines with a lone `\r` and holds a block construct that pulldown-cmark does not
/// end there: an ATX heading, a code fence, an HTML block / comment, a `$$` block, a `---` metadata block
fn lone_cr_blocks(text: &[char]) -> bool {
    let lone = (0..text.len()).any(|i| text[i] == '\r' && text.get(i + 1) != Some(&'\n'));
    if !lone || text.contains(&'\n') {
        return false;
    }
    let s: String = text.iter().collect();
    s.split('\r').any(|l| {
        let l = l.trim_start();
        l.starts_with('#') || l.starts_with("```") || l.starts_with("~~~") || l.starts_with('<') || l.starts_with("$$") || l.starts_with("---")
    })
}

/// the property's clauses on the final tokens of one generated file
pub fn judge(front: &str, text: &[char], taints: &[String], toks: &[Token], zones: &[Zone], out: &mut Out) {
    let src_len = text.len();
    // index zones by start (they are disjoint and in increasing order by construction)
    let mut exact = vec![0usize; zones.len()];
    let mut other = vec![0usize; zones.len()];
    for (i, t) in toks.iter().enumerate() {
        if t.span.start > t.span.end || t.span.end > src_len {
            out.fails.push(("out-of-bounds".into(), format!("token {} {} outside text of length {}", i, tok_show(t), src_len)));
            return;
        }
        if t.span.start == t.span.end {
            continue;
        }
        // first zone with e > t.start
        let mut z = zones.partition_point(|z| z.e <= t.span.start);
        let is_word = matches!(t.kind, TokenKind::Word(_));
        while z < zones.len() && zones[z].s < t.span.end {
            let zn = &zones[z];
            match zn.kind {
                ZK::Prose => {
                    if is_word && t.span.start == zn.s && t.span.end == zn.e {
                        exact[z] += 1;
                    } else {
                        other[z] += 1;
                        let base = if is_word { "word-misplaced" } else { "prose-not-a-word" };
                        out.fails.push((
                            classify(front, base, zn, text, taints),
                            format!("token {} overlaps the prose word at {}-{} without being exactly a Word over it", tok_show(t), zn.s, zn.e),
                        ));
                    }
                }
                ZK::NonProse => {
                    if !allowed_over_nonprose(&t.kind) {
                        out.fails.push((
                            classify(front, "nonprose-offered", zn, text, taints),
                            format!("token {} overlaps non-prose segment `{}` at {}-{}", tok_show(t), zn.what, zn.s, zn.e),
                        ));
                    }
                }
                ZK::Delim => {
                    if is_word {
                        out.fails.push((
                            classify(front, "word-in-delimiter", zn, text, taints),
                            format!("Word token {} overlaps delimiter `{}` at {}-{}", tok_show(t), zn.what, zn.s, zn.e),
                        ));
                    }
                }
                ZK::Ignored => {
                    if !matches!(t.kind, TokenKind::ParagraphBreak) {
                        out.fails.push((
                            classify(front, "ignored-offered", zn, text, taints),
                            format!("token {} overlaps ignored segment `{}` at {}-{}", tok_show(t), zn.what, zn.s, zn.e),
                        ));
                    }
                }
            }
            z += 1;
        }
    }
    for (i, zn) in zones.iter().enumerate() {
        if zn.kind == ZK::Prose {
            out.words_checked += 1;
            if exact[i] != 1 && other[i] == 0 {
                out.fails.push((
                    classify(front, if exact[i] == 0 { "prose-missed" } else { "prose-duplicated" }, zn, text, taints),
                    format!("prose word at {}-{} is covered by {} Word tokens", zn.s, zn.e, exact[i]),
                ));
            }
        }
    }
}

pub fn zones_json(z: &[Zone]) -> Value {
    Value::Array(z.iter().map(|z| json!([z.s, z.e, z.kind.tag(), z.what])).collect())
}

pub fn zones_from_json(v: &Value) -> Vec<Zone> {
    let mut out = vec![];
    if let Some(a) = v.as_array() {
        for z in a {
            let (Some(s), Some(e), Some(k)) = (z[0].as_u64(), z[1].as_u64(), z[2].as_str().and_then(ZK::from_tag)) else { continue };
            out.push(Zone { s: s as usize, e: e as usize, kind: k, what: z[3].as_str().unwrap_or("").to_string() });
        }
    }
    out
}

/// run the real front-end on one generated file and judge the final Document tokens
pub fn eval_file(id: &str, ilt: bool, text: &str, zones: &[Zone], taints: &[String]) -> Out {
    let mut out = Out { fails: vec![], counts: vec![], words_checked: 0, panicked: false };
    let Some(parser) = frontends::parser_for(id, ilt) else {
        out.fails.push(("frontend-not-constructible".into(), format!("no parser for language id {}", id)));
        return out;
    };
    let dict = FstDictionary::curated();
    match guarded(|| Document::new(text, &parser, &dict)) {
        Ok(doc) => {
            judge(id, doc.get_source(), taints, doc.get_tokens(), zones, &mut out);
        }
        Err(e) => {
            out.panicked = true;
            let dummy = Zone { s: 0, e: 0, kind: ZK::Ignored, what: String::new() };
            let cs: Vec<char> = text.chars().collect();
            out.fails.push((classify(id, "panic", &dummy, &cs, taints), format!("Document::new panicked: {}", trunc(&e, 200))));
        }
    }
    out
}

fn input_json(id: &str, ilt: bool, text: &str, zones: &[Zone], taints: &[String]) -> Value {
    json!({"frontend": id, "ilt": ilt, "text": text, "zones": zones_json(zones), "taints": taints})
}

/// hand-written corpus: (language id, text with ⟦…⟧ = non-prose, ⟪…⟫ = ignored; every other
/// lower-case ASCII word ≥ 3 letters outside brackets is NOT judged — only bracketed ranges and
/// words wrapped in ‹…› (prose) are)
fn corpus() -> Vec<(&'static str, &'static str)> {
    vec![
        ("rust", "⟦fn main() { let s = \"héllo // wörld 😀\"; }⟧ // ‹the› ‹quick› ‹fox›\n"),
        ("rust", "⟦let s = \"😀😀😀\";⟧ /* ‹over› /* ‹lazy› */ ‹dog› */\n"),
        ("python", "⟪#!/usr/bin/env prögram⟫\n⟦x = \"é # not\"⟧\n# ‹every› ‹morning›\n"),
        ("python", "⟦x = 1⟧ ⟪# spellchecker:ignore zqxv wörd⟫\n⟦y = 2⟧\n# ‹small› ‹mistakes›\n"),
        ("javascript", "⟦const s = \"é😀\";⟧\n/**\n * ‹this› ‹function› ⟦{@link Fóo}⟧ ‹returns›\n * ⟦@param zqxü⟧ thing\n */\n"),
        ("java", "⟦class A { String s = \"é😀\"; }⟧\n/**\n * ‹this› ‹function› ‹returns›\n * ⟦@param zqxü⟧ ‹value›\n */\n"),
        ("go", "⟦var s = \"é😀\"⟧\n⟦//go:generate zqtool wörd⟧\n⟦var t = 1⟧\n// ‹please› ‹check›\n"),
        ("markdown", "# ‹house›\n\n‹the› ⟦`fóo😀`⟧ ‹garden› [‹river›](⟦https://example.com/päge⟧)\n\n⟦```\nlet é = 1;\n```⟧\n"),
        ("html", "⟦<p title=\"é😀\">⟧‹stone› ‹friend›⟦</p>⟧⟦<script>var x = \"wörd teh\";</script>⟧"),
        ("typst", "= ‹letter›\n‹number› ⟦$x^2 + ü$⟧ ‹water›\n⟦#let zq = 1⟧\n"),
        ("lhaskell", "‹bread› ‹light›\n\n⟦> zq = \"é😀\"⟧\n\n‹stone›\n"),
        ("lhaskell", "‹bread›\n⟦\\begin{code}⟧\n⟦zq = \"é😀 teh\"⟧\n⟦\\end{code}⟧\n‹stone›\n"),
        ("git-commit", "‹first› ‹second›\n\n‹third› ⟦`é😀`⟧ ‹house›\n⟪# Please enter the cömmit message⟫\n⟪# teh zqxv⟫\n"),
        ("lua", "⟦local s = \"é -- 😀\"⟧\n-- ‹table› ‹paper›\n"),
        ("haskell", "⟦zq = \"é -- 😀\"⟧\n-- ‹table› ‹paper›\n"),
        ("ruby", "⟦s = \"é # 😀\"⟧\n# ‹music› ‹water›\n"),
    ]
}

fn parse_corpus(s: &str) -> (String, Vec<Zone>) {
    let mut text = String::new();
    let mut n = 0usize;
    let mut zones = vec![];
    let mut open: Option<(usize, ZK)> = None;
    for c in s.chars() {
        match c {
            '⟦' => open = Some((n, ZK::NonProse)),
            '⟪' => open = Some((n, ZK::Ignored)),
            '‹' => open = Some((n, ZK::Prose)),
            '⟧' | '⟫' | '›' => {
                if let Some((a, k)) = open.take() {
                    zones.push(Zone { s: a, e: n, kind: k, what: "corpus".into() });
                }
            }
            _ => {
                text.push(c);
                n += 1;
            }
        }
    }
    (text, zones)
}

// ------------------------------------------------------------------------------------------
// w25: the same clauses at the OTHER call sites of the front-ends — the language server's own
// language-id dispatch (`Backend::update_document`), the command line's file-extension dispatch
// (`harper-cli parse`: `load_file` → `CommentParser::new_from_filename`), the JS API
// (`harper_wasm::Linter::lint`, `Language::{Plain, Markdown}`) — and on files derived from the
// generated ones (long, no final line end, leading blank lines, lone CR, no prose at all).
// ------------------------------------------------------------------------------------------

/// class of a failure seen at another call site: the recorded finding if the construct is one,
/// else `<origin>-<base>`
fn classify_at(origin: &str, front: &str, base: &str, zone: &Zone, text: &[char], taints: &[String]) -> String {
    let c = classify(front, base, zone, text, taints);
    if c == base { format!("{}-{}", origin, base) } else { c }
}

/// The clauses on what a call site REPORTS for a file with planted sentinels when only the
/// spelling rule is on: `spans` are the character ranges it flagged. Every planted (misspelled)
/// prose word is flagged exactly once at exactly its range; nothing is flagged inside a non-prose
/// or ignored segment, a delimiter, or a correctly spelled prose word.
pub fn judge_spans(origin: &str, front: &str, text: &[char], taints: &[String], spans: &[(usize, usize)], zones: &[Zone], planted: &[usize], out: &mut Out) {
    let n = text.len();
    let mut hit = vec![0usize; zones.len()];
    let mut other = vec![0usize; zones.len()];
    for &(s, e) in spans {
        if s > e || e > n {
            out.fails.push((format!("{}-out-of-bounds", origin), format!("flagged range {}-{} outside text of length {}", s, e, n)));
            continue;
        }
        if s == e {
            continue;
        }
        let mut z = zones.partition_point(|z| z.e <= s);
        while z < zones.len() && zones[z].s < e {
            let zn = &zones[z];
            match zn.kind {
                ZK::Prose => {
                    if s == zn.s && e == zn.e && planted.contains(&z) {
                        hit[z] += 1;
                    } else {
                        other[z] += 1;
                        out.fails.push((
                            classify_at(origin, front, "word-misplaced", zn, text, taints),
                            format!("flagged range {}-{} overlaps the prose word `{}` at {}-{} without being exactly a misspelled word", s, e, zn.what, zn.s, zn.e),
                        ));
                    }
                }
                ZK::NonProse => out.fails.push((classify_at(origin, front, "nonprose-offered", zn, text, taints), format!("flagged range {}-{} overlaps non-prose segment `{}` at {}-{}", s, e, zn.what, zn.s, zn.e))),
                ZK::Delim => out.fails.push((classify_at(origin, front, "word-in-delimiter", zn, text, taints), format!("flagged range {}-{} overlaps delimiter `{}` at {}-{}", s, e, zn.what, zn.s, zn.e))),
                ZK::Ignored => out.fails.push((classify_at(origin, front, "ignored-offered", zn, text, taints), format!("flagged range {}-{} overlaps ignored segment `{}` at {}-{}", s, e, zn.what, zn.s, zn.e))),
            }
            z += 1;
        }
    }
    for &z in planted {
        out.words_checked += 1;
        if hit[z] != 1 && other[z] == 0 {
            let zn = &zones[z];
            out.fails.push((
                classify_at(origin, front, if hit[z] == 0 { "prose-missed" } else { "prose-duplicated" }, zn, text, taints),
                format!("misspelled prose word `{}` at {}-{} is flagged {} times", zn.what, zn.s, zn.e, hit[z]),
            ));
        }
    }
}

/// an LSP position (line = number of `\n` before it, character = UTF-16 units from the line
/// start) as a character offset of `text`; None if it is not a character boundary of that line
fn lsp_to_char(text: &[char], line: u64, character: u64) -> Option<usize> {
    let mut start = 0usize;
    let mut l = 0u64;
    while l < line {
        let p = text[start..].iter().position(|c| *c == '\n')?;
        start += p + 1;
        l += 1;
    }
    let mut units = 0u64;
    let mut k = start;
    while units < character {
        let c = *text.get(k)?;
        if c == '\n' {
            return None;
        }
        units += c.len_utf16() as u64;
        k += 1;
    }
    if units == character { Some(k) } else { None }
}

/// `{rule: false, …, "SpellCheck": true}` over every rule key of the curated group
fn spelling_only() -> Value {
    use harper_core::linting::LintGroup;
    let g = LintGroup::new_curated(FstDictionary::curated(), harper_core::Dialect::American);
    let mut m = serde_json::Map::new();
    for k in g.iter_keys() {
        m.insert(k.to_string(), json!(k == "SpellCheck"));
    }
    m.insert("SpellCheck".into(), json!(true));
    Value::Object(m)
}

pub struct SiteJob {
    pub id: String,
    pub ilt: bool,
    pub b: B,
    pub planted: Vec<usize>,
}

fn site_input(stream: &str, j: &SiteJob, ext: &str) -> Value {
    let taints: Vec<String> = j.b.taints.iter().map(|s| s.to_string()).collect();
    let mut v = input_json(&j.id, j.ilt, &j.b.text, &j.b.zones, &taints);
    v["stream"] = json!(stream);
    v["planted"] = json!(j.planted);
    v["ext"] = json!(ext);
    v
}

fn site_job_from_json(v: &Value) -> SiteJob {
    let mut b = B::new(false);
    b.text = v["text"].as_str().unwrap_or("").to_string();
    b.n = b.text.chars().count();
    b.zones = zones_from_json(&v["zones"]);
    // (taints are `&'static str` in the builder: the recorded ones are matched against the known list)
    for t in v["taints"].as_array().map(|a| a.iter().filter_map(|x| x.as_str()).collect::<Vec<_>>()).unwrap_or_default() {
        for k in ["c-define-comment-opener", "c-define-trailing-comment", "jsx-text-comment-opener", "go-directive-empty-tail"] {
            if t == k {
                b.taint(k);
            }
        }
    }
    SiteJob {
        id: v["frontend"].as_str().unwrap_or("markdown").to_string(),
        ilt: v["ilt"].as_bool().unwrap_or(false),
        b,
        planted: v["planted"].as_array().map(|a| a.iter().filter_map(|x| x.as_u64().map(|u| u as usize)).collect()).unwrap_or_default(),
    }
}

fn site_files(rng: &mut Rng, id: &str, n: usize, markers: &[String], ilt_every: usize) -> Vec<SiteJob> {
    let mut out = vec![];
    let mut tries = 0;
    while out.len() < n && tries < n * 10 {
        tries += 1;
        let ilt = ilt_every > 0 && tries % ilt_every == 0;
        let Some(mut b) = cgen::gen_file(rng, id, ilt, markers) else { break };
        let planted = cgen::plant(rng, &mut b);
        if planted.is_empty() {
            continue;
        }
        out.push(SiteJob { id: id.to_string(), ilt, b, planted });
    }
    out
}

/// one language id, one server session: every file is opened under its language id with the
/// spelling rule alone; the publication is judged
fn server_session(jobs: &[SiteJob], linters: &Value) -> Vec<Out> {
    use crate::lsclient::*;
    let mut outs: Vec<Out> = vec![];
    let r: Result<(), LsError> = (|| {
        let cfg0 = json!({"harper-ls": {"linters": linters}});
        let mut ls = LsSession::start()?;
        ls.initialize(&cfg0)?;
        for (n, j) in jobs.iter().enumerate() {
            let mut out = Out { fails: vec![], counts: vec![], words_checked: 0, panicked: false };
            let cfg = json!({"harper-ls": {"linters": linters, "markdown": {"IgnoreLinkTitle": j.ilt}}});
            let uri = format!("file:///c04-server/{}/f{}.src", j.id.replace(' ', "_"), n);
            let text: Vec<char> = j.b.text.chars().collect();
            let taints: Vec<String> = j.b.taints.iter().map(|s| s.to_string()).collect();
            let step: Result<(), LsError> = (|| {
                ls.notify("textDocument/didOpen", did_open(&uri, &j.id, &j.b.text))?;
                ls.quiesce(&cfg)?;
                Ok(())
            })();
            if let Err(e) = step {
                out.panicked = true;
                let dummy = Zone { s: 0, e: 0, kind: ZK::Ignored, what: String::new() };
                out.fails.push((classify_at("server", &j.id, "panic", &dummy, &text, &taints), format!("the server did not survive didOpen: {}", trunc(&e.to_string(), 200))));
                outs.push(out);
                return Err(e);
            }
            match ls.last_publication(&uri).cloned() {
                None => out.fails.push(("server-no-publication".into(), format!("didOpen with languageId {:?} was not answered by a publishDiagnostics", j.id))),
                Some(p) => {
                    let mut spans = vec![];
                    for d in p.as_array().cloned().unwrap_or_default() {
                        let (sl, sc, el, ec) = (d["range"]["start"]["line"].as_u64(), d["range"]["start"]["character"].as_u64(), d["range"]["end"]["line"].as_u64(), d["range"]["end"]["character"].as_u64());
                        let (Some(sl), Some(sc), Some(el), Some(ec)) = (sl, sc, el, ec) else { continue };
                        match (lsp_to_char(&text, sl, sc), lsp_to_char(&text, el, ec)) {
                            (Some(s), Some(e)) => spans.push((s, e)),
                            _ => out.fails.push(("server-range-not-on-a-character".into(), format!("published range {}:{}-{}:{} is not a pair of character boundaries of the text", sl, sc, el, ec))),
                        }
                    }
                    out.counts.push(format!("server:diagnostics:{}", spans.len().min(6)));
                    judge_spans("server", &j.id, &text, &taints, &spans, &j.b.zones, &j.planted, &mut out);
                }
            }
            let _ = ls.notify("textDocument/didClose", did_close(&uri));
            outs.push(out);
        }
        ls.shutdown(&cfg0)?;
        Ok(())
    })();
    if let Err(e) = r {
        if outs.iter().all(|o| !o.panicked) {
            let mut out = Out { fails: vec![], counts: vec![], words_checked: 0, panicked: false };
            out.counts.push(format!("server:session-error:{}", trunc(&e.to_string(), 60)));
            outs.push(out);
        }
    }
    outs
}

fn report_site(sess: &mut Session, stream: &str, ext: &str, j: &SiteJob, o: Out) {
    sess.o();
    sess.count(&format!("{}:front:{}{}", stream, j.id, if ext.is_empty() { String::new() } else { format!(".{}", ext) }));
    for c in &o.counts {
        sess.count(c);
    }
    sess.add(&format!("{}:sentinels-judged", stream), o.words_checked as u64);
    if o.fails.is_empty() && j.planted.len() >= 2 && !j.b.text.is_ascii() {
        sess.nontrivial(&format!("{}|{}|{}", stream, ext, j.b.text));
    }
    for (class, desc) in o.fails {
        let what = desc.split('`').nth(1).unwrap_or("-").to_string();
        sess.count(&format!("ofail:{}:{}:{}", class, j.id, what));
        sess.fail(&class, format!("[{} {}{}] {}", stream, j.id, if j.ilt { "+ilt" } else { "" }, desc), site_input(stream, j, ext), None);
    }
}

/// the server's own dispatch: `textDocument/didOpen` with every language id of its table
fn server_stream(sess: &mut Session, ctx: &Ctx, rng: &mut Rng, markers: &[String], only: Option<SiteJob>) {
    crate::lsclient::set_home(&ctx.out.join("c04-home"));
    let linters = spelling_only();
    let ids = frontends::language_ids();
    let per = if ctx.tier == Tier::Thorough { 60 } else { 4 };
    let mut groups: Vec<Vec<SiteJob>> = vec![];
    if let Some(j) = only {
        groups.push(vec![j]);
    } else {
        for id in &ids {
            if frontends::parser_for(id, false).is_none() {
                continue;
            }
            let mut r = rng.fork();
            groups.push(site_files(&mut r, id, per, markers, 4));
        }
    }
    let outs = par_map(groups.len(), 8, |i| server_session(&groups[i], &linters));
    let mut complete = true;
    for (g, os) in groups.iter().zip(outs.into_iter()) {
        if os.len() != g.len() {
            complete = false;
        }
        for (j, o) in g.iter().zip(os.into_iter()) {
            report_site(sess, "server", "", j, o);
        }
    }
    sess.monitor("every in-process language-server session of the C04 stream ran to its end", complete);
}

/// file extension → language id, read from `CommentParser::filename_to_filetype` and the
/// command line's own `load_file`
fn cli_extensions() -> Vec<(String, String)> {
    let mut out: Vec<(String, String)> = vec![("md".into(), "markdown".into()), ("lhs".into(), "lhaskell".into()), ("typ".into(), "typst".into())];
    if let Ok(src) = std::fs::read_to_string("/repo/harper-comments/src/comment_parser.rs") {
        if let Some(a) = src.find("fn filename_to_filetype") {
            let body = &src[a..];
            let body = &body[..body.find("fn node_condition").unwrap_or(body.len())];
            for line in body.lines() {
                let Some(arrow) = line.find("=>") else { continue };
                let quoted = |s: &str| -> Vec<String> { s.split('"').enumerate().filter(|(i, _)| i % 2 == 1).map(|(_, x)| x.to_string()).collect() };
                let (lhs, rhs) = (quoted(&line[..arrow]), quoted(&line[arrow..]));
                if let Some(id) = rhs.first() {
                    for e in lhs {
                        out.push((e, id.clone()));
                    }
                }
            }
        }
    }
    out
}

/// what a file with this extension IS (the generator that writes it), whatever the table says
fn language_of_extension(ext: &str) -> Option<&'static str> {
    Some(match ext {
        "py" => "python", "nix" => "nix", "rs" => "rust", "ts" => "typescript", "tsx" => "typescriptreact", "js" => "javascript", "jsx" => "javascriptreact",
        "go" => "go", "c" => "c", "h" => "c", "cpp" => "cpp", "cmake" => "cmake", "rb" => "ruby", "swift" => "swift", "cs" => "csharp", "toml" => "toml",
        "lua" => "lua", "sh" | "bash" => "shellscript", "java" => "java", "hs" => "haskell", "php" => "php", "dart" => "dart", "scala" | "sbt" | "mill" => "scala",
        "md" => "markdown", "lhs" => "lhaskell", "typ" => "typst",
        _ => return None,
    })
}

fn cli_binary(sess: &mut Session) -> Option<std::path::PathBuf> {
    let target = std::path::PathBuf::from(env!("CARGO_MANIFEST_DIR")).join("target").join("lsbin");
    let built = std::process::Command::new("cargo")
        .args(["build", "--offline", "--locked", "-p", "harper-cli", "--manifest-path", "/repo/Cargo.toml", "--target-dir"])
        .arg(&target)
        .env("CARGO_NET_OFFLINE", "true")
        .stdout(std::process::Stdio::null())
        .stderr(std::process::Stdio::null())
        .status()
        .map(|s| s.success())
        .unwrap_or(false);
    sess.count(if built { "cli:built" } else { "cli:not-built(stream skipped)" });
    built.then(|| target.join("debug").join("harper-cli"))
}

/// `harper-cli parse FILE` on one file: the printed tokens are judged like `Document` tokens
fn cli_eval(bin: &std::path::Path, dir: &std::path::Path, n: usize, ext: &str, j: &SiteJob) -> Out {
    let mut out = Out { fails: vec![], counts: vec![], words_checked: 0, panicked: false };
    let file = dir.join(format!("f{}.{}", n, ext));
    if std::fs::write(&file, &j.b.text).is_err() {
        out.counts.push("cli:file-not-written".into());
        return out;
    }
    let text: Vec<char> = j.b.text.chars().collect();
    let taints: Vec<String> = j.b.taints.iter().map(|s| s.to_string()).collect();
    let Ok(res) = std::process::Command::new(bin).arg("parse").arg(&file).output() else {
        out.counts.push("cli:not-started".into());
        return out;
    };
    if !res.status.success() {
        out.panicked = true;
        let dummy = Zone { s: 0, e: 0, kind: ZK::Ignored, what: String::new() };
        let err = String::from_utf8_lossy(&res.stderr).to_string();
        out.fails.push((classify_at("cli", &j.id, "panic", &dummy, &text, &taints), format!("`harper-cli parse f.{}` ended with {:?}: {}", ext, res.status.code(), trunc(&err, 200))));
        return out;
    }
    let mut toks: Vec<Token> = vec![];
    for line in String::from_utf8_lossy(&res.stdout).lines() {
        match serde_json::from_str::<Token>(line) {
            Ok(t) => toks.push(t),
            Err(_) => {
                out.counts.push("cli:unreadable-token-line".into());
            }
        }
    }
    out.counts.push(format!("cli:tokens:{}", if toks.is_empty() { "0" } else { "some" }));
    let before = out.fails.len();
    judge(&j.id, &text, &taints, &toks, &j.b.zones, &mut out);
    // failures that are not a recorded finding carry the call site in their class
    for f in out.fails[before..].iter_mut() {
        if !f.0.starts_with("c04-") {
            f.0 = format!("cli-{}", f.0);
        }
    }
    out
}

/// the command line's dispatch by file extension
fn cli_stream(sess: &mut Session, ctx: &Ctx, rng: &mut Rng, markers: &[String], only: Option<(String, SiteJob)>) {
    let Some(bin) = cli_binary(sess) else { return };
    let dir = ctx.out.join("c04-cli");
    let _ = std::fs::create_dir_all(&dir);
    let per = if ctx.tier == Tier::Thorough { 4 } else { 1 };
    let mut jobs: Vec<(String, SiteJob)> = vec![];
    if let Some(o) = only {
        jobs.push(o);
    } else {
        let mut exts = cli_extensions();
        exts.sort();
        exts.dedup();
        for (ext, table_id) in exts {
            // a file of the language the extension stands for; an extension this list does not
            // know is exercised with the language the table gives it
            let id = language_of_extension(&ext).map(|s| s.to_string()).unwrap_or(table_id);
            // (one process start of the unoptimised executable costs ≈ 2 s: a few long files per
            // extension rather than many short ones)
            let mut r = rng.fork();
            for _ in 0..per {
                let b = cgen::gen_long(&mut r, &id, false, markers, 5).or_else(|| cgen::gen_file(&mut r, &id, false, markers));
                let Some(mut b) = b else { break };
                let planted = cgen::plant(&mut r, &mut b);
                jobs.push((ext.clone(), SiteJob { id: id.clone(), ilt: false, b, planted }));
            }
        }
    }
    let outs = par_map(jobs.len(), 16, |i| cli_eval(&bin, &dir, i, &jobs[i].0, &jobs[i].1));
    for ((ext, j), o) in jobs.iter().zip(outs.into_iter()) {
        report_site(sess, "cli", ext, j, o);
    }
}

/// the JS API: `harper_wasm::Linter::lint(text, Language::Markdown | Language::Plain)` with the
/// spelling rule alone; the reported lint spans are judged
fn wasm_stream(sess: &mut Session, ctx: &Ctx, rng: &mut Rng, markers: &[String], only: Option<SiteJob>) {
    use harper_wasm::{Dialect as WDialect, Language, Linter as WLinter};
    let per = if ctx.tier == Tier::Thorough { 2000 } else { 150 };
    let mut jobs: Vec<SiteJob> = vec![];
    if let Some(j) = only {
        jobs.push(j);
    } else {
        for id in ["markdown", "plaintext"] {
            let mut r = rng.fork();
            jobs.extend(site_files(&mut r, id, per, markers, 0));
        }
    }
    let linters = spelling_only().to_string();
    let Ok(mut js) = guarded(|| WLinter::new(WDialect::American)) else {
        sess.monitor("harper_wasm::Linter::new returns", false);
        return;
    };
    if js.set_lint_config_from_json(linters).is_err() {
        sess.count("wasm:config-rejected(stream skipped)");
        return;
    }
    for j in &jobs {
        let mut out = Out { fails: vec![], counts: vec![], words_checked: 0, panicked: false };
        let text: Vec<char> = j.b.text.chars().collect();
        let taints: Vec<String> = j.b.taints.iter().map(|s| s.to_string()).collect();
        let lang = if j.id == "markdown" { Language::Markdown } else { Language::Plain };
        let t = j.b.text.clone();
        match guarded(std::panic::AssertUnwindSafe(|| js.lint(t, lang))) {
            Ok(lints) => {
                let spans: Vec<(usize, usize)> = lints.iter().map(|l| (l.span().start, l.span().end)).collect();
                judge_spans("wasm", &j.id, &text, &taints, &spans, &j.b.zones, &j.planted, &mut out);
            }
            Err(e) => {
                out.panicked = true;
                out.fails.push(("wasm-panic".into(), format!("harper_wasm::Linter::lint panicked: {}", trunc(&e, 200))));
            }
        }
        report_site(sess, "wasm", "", j, out);
    }
}

/// files derived from generated ones (ground truth kept): long files, no final line end, leading
/// blank lines, lone CR; and documents without prose in every language
fn derived_jobs(ctx: &Ctx, rng: &mut Rng, ids: &[String], markers: &[String]) -> Vec<(String, bool, B)> {
    let mut out = vec![];
    let per = if ctx.tier == Tier::Thorough { 400 } else { 40 };
    for id in ids {
        if frontends::parser_for(id, false).is_none() {
            continue;
        }
        let mut r = rng.fork();
        for d in cgen::EDGE_DOCS {
            let mut b = B::new(false);
            b.text = d.to_string();
            b.n = b.text.chars().count();
            b.feats.push("no-prose");
            out.push((id.clone(), false, b));
        }
        for k in 0..per {
            let ilt = k % 5 == 4;
            match k % 4 {
                0 => {
                    let parts = if ctx.tier == Tier::Thorough && k % 40 == 0 { 60 } else { r.range(3, 8) };
                    if let Some(b) = cgen::gen_long(&mut r, id, ilt, markers, parts) {
                        out.push((id.clone(), ilt, b));
                    }
                }
                1 => {
                    if let Some(mut b) = cgen::gen_file(&mut r, id, ilt, markers) {
                        if cgen::strip_final_eol(&mut b) {
                            out.push((id.clone(), ilt, b));
                        }
                    }
                }
                2 => {
                    if let Some(mut b) = cgen::gen_file(&mut r, id, ilt, markers) {
                        if cgen::prepend_blank_lines(&mut r, id, &mut b) {
                            out.push((id.clone(), ilt, b));
                        }
                    }
                }
                _ => {
                    if let Some(mut b) = cgen::gen_file(&mut r, id, ilt, markers) {
                        if cgen::lone_cr(id, &mut b) {
                            out.push((id.clone(), ilt, b));
                        }
                    }
                }
            }
        }
    }
    out
}

pub fn run(ctx: &Ctx) {
    let mut sess = Session::new(ctx);
    let mut rng = Rng::new(ctx.seed);
    if let Some(v) = replay_input(ctx) {
        if v.get("kop").is_some() {
            kglue::replay(&mut sess, &v);
        } else if let Some(stream) = v["stream"].as_str() {
            // w25: a failure recorded at another call site
            let markers = cgen::ignore_markers();
            let j = site_job_from_json(&v);
            match stream {
                "server" => server_stream(&mut sess, ctx, &mut rng, &markers, Some(j)),
                "cli" => cli_stream(&mut sess, ctx, &mut rng, &markers, Some((v["ext"].as_str().unwrap_or("md").to_string(), j))),
                _ => wasm_stream(&mut sess, ctx, &mut rng, &markers, Some(j)),
            }
        } else {
            let id = v["frontend"].as_str().unwrap_or("markdown").to_string();
            let ilt = v["ilt"].as_bool().unwrap_or(false);
            let text = v["text"].as_str().unwrap_or("").to_string();
            let zones = zones_from_json(&v["zones"]);
            let taints: Vec<String> = v["taints"].as_array().map(|a| a.iter().filter_map(|x| x.as_str().map(String::from)).collect()).unwrap_or_default();
            let o = eval_file(&id, ilt, &text, &zones, &taints);
            sess.o();
            for (class, desc) in o.fails {
                sess.fail(&class, desc, input_json(&id, ilt, &text, &zones, &taints), None);
            }
        }
        sess.nontrivial("replay-a");
        sess.nontrivial("replay-b");
        sess.finish("replay of one recorded input", false, json!({}));
        return;
    }

    // ---- K: glue models vs real glue -----------------------------------------------------
    kglue::run(ctx, &mut sess, &mut rng);

    // ---- O: ground truth -----------------------------------------------------------------
    // the vocabulary really is dictionary words
    {
        use harper_core::Dictionary;
        let dict = FstDictionary::curated();
        for w in cgen::WORDS {
            let cs: Vec<char> = w.chars().collect();
            sess.monitor("prose vocabulary is in the curated dictionary", dict.contains_word(&cs));
        }
    }
    let markers = cgen::ignore_markers();
    sess.add("ignore-markers", markers.len() as u64);
    let ids = frontends::language_ids();
    sess.add("frontends", ids.len() as u64);
    let per_front = if ctx.tier == Tier::Thorough { 20000 } else { 2500 };
    struct Job {
        id: String,
        ilt: bool,
        b: B,
    }
    let taints_of = |b: &B| -> Vec<String> { b.taints.iter().map(|s| s.to_string()).collect() };
    let mut evaluated = 0usize;
    let mut run_batch = |sess: &mut Session, jobs: Vec<Job>| {
        let outs = par_map(jobs.len(), 16, |i| eval_file(&jobs[i].id, jobs[i].ilt, &jobs[i].b.text, &jobs[i].b.zones, &taints_of(&jobs[i].b)));
        for (i, o) in outs.into_iter().enumerate() {
            let j = &jobs[i];
            sess.o();
            sess.count(&format!("front:{}", j.id));
            for f in &j.b.feats {
                sess.count(&format!("feature:{}", f));
            }
            for f in &j.b.taints {
                sess.count(&format!("taint:{}", f));
            }
            if j.b.eol == "\r\n" {
                sess.count("eol:crlf");
            }
            sess.add("prose-words-judged", o.words_checked as u64);
            sess.add("nonprose-zones", j.b.zones.iter().filter(|z| z.kind == ZK::NonProse).count() as u64);
            sess.add("ignored-zones", j.b.zones.iter().filter(|z| z.kind == ZK::Ignored).count() as u64);
            if j.b.feats.len() >= 3 && !j.b.text.is_ascii() {
                sess.nontrivial(&j.b.text);
            }
            if evaluated % 19997 == 0 {
                sess.sample(json!({"frontend": j.id, "text": trunc(&j.b.text, 240)}));
            }
            evaluated += 1;
            for (class, desc) in o.fails {
                let what = desc.split('`').nth(1).unwrap_or("-").to_string();
                sess.count(&format!("ofail:{}:{}:{}", class, j.id, what));
                sess.fail(&class, format!("[{}{}] {}", j.id, if j.ilt { "+ilt" } else { "" }, desc), input_json(&j.id, j.ilt, &j.b.text, &j.b.zones, &taints_of(&j.b)), None);
            }
        }
    };
    // 1. corpus
    let mut jobs: Vec<Job> = vec![];
    for (id, s) in corpus() {
        let (text, zones) = parse_corpus(s);
        let mut b = B::new(false);
        b.text = text;
        b.n = b.text.chars().count();
        b.zones = zones;
        b.feats.push("corpus");
        jobs.push(Job { id: id.to_string(), ilt: false, b });
    }
    run_batch(&mut sess, jobs);
    // 2. generated files for every language id of the server's table (in batches)
    let only = std::env::var("C04_ONLY").ok();
    for id in &ids {
        if only.as_ref().is_some_and(|o| o != id) {
            continue;
        }
        if frontends::parser_for(id, false).is_none() {
            sess.monitor(&format!("frontend-known:{}", id), false);
            continue;
        }
        let mut r = rng.fork();
        let mut jobs: Vec<Job> = vec![];
        for j in 0..per_front {
            let ilt = j % 5 == 4;
            match cgen::gen_file(&mut r, id, ilt, &markers) {
                Some(b) => jobs.push(Job { id: id.clone(), ilt, b }),
                None => {
                    sess.monitor(&format!("generator-for-language:{}", id), false);
                    break;
                }
            }
            if jobs.len() >= 10000 {
                run_batch(&mut sess, std::mem::take(&mut jobs));
            }
        }
        run_batch(&mut sess, jobs);
    }
    // 3. (w25) derived families: long files, no final line end, leading blank lines, lone CR,
    //    documents without prose
    if only.is_none() {
        let jobs: Vec<Job> = derived_jobs(ctx, &mut rng, &ids, &markers).into_iter().map(|(id, ilt, b)| Job { id, ilt, b }).collect();
        run_batch(&mut sess, jobs);
    }
    // 4. (w25) the other call sites of the front-ends
    if only.is_none() {
        // (the command line is built with cargo, which needs the real HOME: before `set_home`)
        cli_stream(&mut sess, ctx, &mut rng, &markers, None);
        server_stream(&mut sess, ctx, &mut rng, &markers, None);
        wasm_stream(&mut sess, ctx, &mut rng, &markers, None);
    }
    sess.finish(
        "K: Lean glue models vs the real glue — byte_spans_to_char_spans + Mask::push_allowed + merge_whitespace_sep through TreeSitterMasker::create_mask (real tree-sitter node byte ranges passed as data), CommentMasker::create_mask (masker.rs compiled in with #[path]: tree-sitter mask, then the ignore-marker filter with the default ignore_condition, then Mask::from_iter; op `cmask`: every marker spelling and near-misses, `#!` spans, merged neighbours; on the REAL masks the oracle checks kept = spans of the tree-sitter mask without a marker / leading `#!`, in order), parsers::Mask through a public Masker with recorded inner-parser tokens, Unit/JsDoc line splitting and leader stripping and the JSDoc inline-tag marker through the real comment parsers with a recording inner parser, with the span-only faithfulness predicate of jsdocParse_span_faithful / javadocParse_span_faithful evaluated on the REAL JsDoc / JavaDoc output of every such case (same spans in the same order as the recorded inner tokens shifted to the stripped line / comment body, kinds kept or Unlintable, line breaks at Σ(len+1)+len, only `*`/space leaders lost; in bounds and ordered when the inner tokens are), the Literate Haskell masker through LiterateHaskellParser, the git-commit cut, OffsetCursor::push_to, the Markdown traversed_bytes/chars advance against pulldown-cmark's real event ranges; corpus, exhaustive small scope (all line lists / texts over small alphabets), structured random with multi-byte text. O: for EVERY language id of the server's table, files assembled from code | comment | markup segments with recorded ground truth (prose = plain dictionary words; multi-byte, astral and combining characters in string literals, code, tags, math, inline code; random indentation; line/block/doc/nested comments; LF and CRLF): every prose word is exactly one Word token at its true character offset; no token other than Unlintable/Url/whitespace/breaks overlaps a non-prose segment; no Word overlaps a delimiter; comments with an ignore marker, shebang lines and the `#` part of a commit message contribute no tokens. The same on files derived from generated ones with the ground truth kept (3–8 files in a row, one of 60 in the thorough tier; without the final line end; with leading blank lines; lone CR as line end for Markdown / Typst / plain) and on 14 documents without prose per language id. At the other call sites, on generated files in which some prose words are replaced by a misspelled sentinel, with the spelling rule alone: (server) didOpen under every language id through the real Backend::update_document, published ranges read back as character ranges; (cli) the real `harper-cli parse FILE` for every file extension of CommentParser::filename_to_filetype and load_file, printed tokens judged like Document tokens; (wasm) harper_wasm::Linter::lint with Language::Markdown / Plain — every sentinel is flagged exactly once at exactly its range, nothing is flagged inside a non-prose, ignored or delimiter segment or a correctly spelled prose word. Non-trivial = a generated file with ≥3 distinct constructs and non-ASCII content; distinct by text.",
        true,
        json!({"language_ids": ids, "ignore_markers": markers, "files_per_language": per_front}),
    );
}
