//! C04 — only prose is checked, and it is located at its true position in the file.
//! O: files assembled from code | comment | markup segments WITH RECORDED GROUND TRUTH, for every
//!    language id of the server's table; the final `Document` tokens are judged against it.
//! K: the Lean glue models (`Harper.Model.Mask`) against the real glue (see `c04k.rs`).
#[path = "c04gen.rs"]
pub mod cgen;
#[path = "c04k.rs"]
pub mod kglue;

use crate::common::*;
use crate::frontends;
use crate::tokfmt::*;
use cgen::{B, ZK, Zone};
use harper_core::{Document, FstDictionary, Token, TokenKind};
use serde_json::{Value, json};

pub struct Out {
    pub fails: Vec<(String, String)>,
    pub counts: Vec<String>,
    pub words_checked: usize,
    pub panicked: bool,
}

fn allowed_over_nonprose(k: &TokenKind) -> bool {
    matches!(k, TokenKind::Unlintable | TokenKind::Url | TokenKind::Space(_) | TokenKind::Newline(_) | TokenKind::ParagraphBreak)
}

/// Narrow classification of the failures that are recorded findings (known_findings.json).
/// `taints` = risky constructs the generator put into this file (see `c04gen.rs`).
fn classify(front: &str, base: &str, zone: &Zone, text: &[char], taints: &[String]) -> String {
    let has = |t: &str| taints.iter().any(|x| x == t);
    // tree-sitter-c / -cpp: the body of a #define is raw text; `//` or `/*` inside a string literal
    // there starts a comment, and a real comment after the body is swallowed
    if (front == "c" || front == "cpp") && has("c-define-comment-opener") {
        return "c04-c-define-string-comment-opener".into();
    }
    if (front == "c" || front == "cpp") && has("c-define-trailing-comment") && base != "nonprose-offered" && base != "ignored-offered" {
        return "c04-c-define-trailing-comment".into();
    }
    // TSX grammar: `//` or `/*` inside JSX text starts a comment
    if (front == "typescriptreact" || front == "javascriptreact") && has("jsx-text-comment-opener") {
        return "c04-jsx-text-comment-opener".into();
    }
    // Literate Haskell: a blank line inside \begin{code} … \end{code} ends the code environment
    if (front == "lhaskell" || front == "literate haskell")
        && base == "nonprose-offered"
        && (zone.what == "lhs-code-env-after-blank" || zone.what == "lhs-fence-after-blank")
    {
        return "c04-lhs-blank-line-in-code-env".into();
    }
    // Typst: the content of a string literal in code is handed to the English parser (by design
    // of the translator)
    if front == "typst" && base == "nonprose-offered" && zone.what == "let-string" {
        return "c04-typst-string-literal".into();
    }
    // lex_url looks for an `@` in the whole remaining text: a URL followed by any later `@`
    // (an inline tag, an e-mail address) is not recognised as a URL
    if base == "nonprose-offered" && zone.what.starts_with("url") && text[zone.e.min(text.len())..].contains(&'@') {
        return "c04-url-before-at-sign".into();
    }
    // Lua `--[[ … ]]` / CMake `#[[ … ]]` on one line: the brackets read as a Markdown wikilink
    if (front == "lua" || front == "cmake") && zone.what.ends_with("@bracket-single") {
        return "c04-bracket-comment-wikilink".into();
    }
    // JSDoc comments (JS/TS family): every line is parsed on its own, so a Markdown code fence is
    // not recognised (the `Unit` parser of the other languages tracks fences; `JsDoc` does not)
    if matches!(front, "javascript" | "javascriptreact" | "typescript" | "typescriptreact")
        && base == "nonprose-offered"
        && zone.what == "fence-body@comment-fence"
    {
        return "c04-jsdoc-code-fence".into();
    }
    // Go: `//go:x` followed by an empty comment line: `actual.start += terminator` moves the start
    // past the end and `Span::len` underflows in `try_get_content` (panic with overflow checks on)
    if front == "go" && base == "panic" && has("go-directive-empty-tail") {
        return "c04-go-directive-empty-tail-panic".into();
    }
    // Ruby: the words `begin` / `end` of the block comment delimiters are offered as words
    if front == "ruby" && base == "word-in-delimiter" && (zone.what == "block-opener" || zone.what == "block-closer") {
        return "c04-ruby-begin-end-delimiter".into();
    }
    base.to_string()
}

/// the property's clauses on the final tokens of one generated file
pub fn judge(front: &str, text: &[char], taints: &[String], toks: &[Token], zones: &[Zone], out: &mut Out) {
    let src_len = text.len();
    // index zones by start (they are disjoint and in increasing order by construction)
    let mut exact = vec![0usize; zones.len()];
    let mut other = vec![0usize; zones.len()];
    for (i, t) in toks.iter().enumerate() {
        if t.span.start > t.span.end || t.span.end > src_len {
            out.fails.push(("out-of-bounds".into(), format!("token {} {} outside text of length {}", i, tok_show(t), src_len)));
            return;
        }
        if t.span.start == t.span.end {
            continue;
        }
        // first zone with e > t.start
        let mut z = zones.partition_point(|z| z.e <= t.span.start);
        let is_word = matches!(t.kind, TokenKind::Word(_));
        while z < zones.len() && zones[z].s < t.span.end {
            let zn = &zones[z];
            match zn.kind {
                ZK::Prose => {
                    if is_word && t.span.start == zn.s && t.span.end == zn.e {
                        exact[z] += 1;
                    } else {
                        other[z] += 1;
                        let base = if is_word { "word-misplaced" } else { "prose-not-a-word" };
                        out.fails.push((
                            classify(front, base, zn, text, taints),
                            format!("token {} overlaps the prose word at {}-{} without being exactly a Word over it", tok_show(t), zn.s, zn.e),
                        ));
                    }
                }
                ZK::NonProse => {
                    if !allowed_over_nonprose(&t.kind) {
                        out.fails.push((
                            classify(front, "nonprose-offered", zn, text, taints),
                            format!("token {} overlaps non-prose segment `{}` at {}-{}", tok_show(t), zn.what, zn.s, zn.e),
                        ));
                    }
                }
                ZK::Delim => {
                    if is_word {
                        out.fails.push((
                            classify(front, "word-in-delimiter", zn, text, taints),
                            format!("Word token {} overlaps delimiter `{}` at {}-{}", tok_show(t), zn.what, zn.s, zn.e),
                        ));
                    }
                }
                ZK::Ignored => {
                    if !matches!(t.kind, TokenKind::ParagraphBreak) {
                        out.fails.push((
                            classify(front, "ignored-offered", zn, text, taints),
                            format!("token {} overlaps ignored segment `{}` at {}-{}", tok_show(t), zn.what, zn.s, zn.e),
                        ));
                    }
                }
            }
            z += 1;
        }
    }
    for (i, zn) in zones.iter().enumerate() {
        if zn.kind == ZK::Prose {
            out.words_checked += 1;
            if exact[i] != 1 && other[i] == 0 {
                out.fails.push((
                    classify(front, if exact[i] == 0 { "prose-missed" } else { "prose-duplicated" }, zn, text, taints),
                    format!("prose word at {}-{} is covered by {} Word tokens", zn.s, zn.e, exact[i]),
                ));
            }
        }
    }
}

pub fn zones_json(z: &[Zone]) -> Value {
    Value::Array(z.iter().map(|z| json!([z.s, z.e, z.kind.tag(), z.what])).collect())
}

pub fn zones_from_json(v: &Value) -> Vec<Zone> {
    let mut out = vec![];
    if let Some(a) = v.as_array() {
        for z in a {
            let (Some(s), Some(e), Some(k)) = (z[0].as_u64(), z[1].as_u64(), z[2].as_str().and_then(ZK::from_tag)) else { continue };
            out.push(Zone { s: s as usize, e: e as usize, kind: k, what: z[3].as_str().unwrap_or("").to_string() });
        }
    }
    out
}

/// run the real front-end on one generated file and judge the final Document tokens
pub fn eval_file(id: &str, ilt: bool, text: &str, zones: &[Zone], taints: &[String]) -> Out {
    let mut out = Out { fails: vec![], counts: vec![], words_checked: 0, panicked: false };
    let Some(parser) = frontends::parser_for(id, ilt) else {
        out.fails.push(("frontend-not-constructible".into(), format!("no parser for language id {}", id)));
        return out;
    };
    let dict = FstDictionary::curated();
    match guarded(|| Document::new(text, &parser, &dict)) {
        Ok(doc) => {
            judge(id, doc.get_source(), taints, doc.get_tokens(), zones, &mut out);
        }
        Err(e) => {
            out.panicked = true;
            let dummy = Zone { s: 0, e: 0, kind: ZK::Ignored, what: String::new() };
            let cs: Vec<char> = text.chars().collect();
            out.fails.push((classify(id, "panic", &dummy, &cs, taints), format!("Document::new panicked: {}", trunc(&e, 200))));
        }
    }
    out
}

fn input_json(id: &str, ilt: bool, text: &str, zones: &[Zone], taints: &[String]) -> Value {
    json!({"frontend": id, "ilt": ilt, "text": text, "zones": zones_json(zones), "taints": taints})
}

/// hand-written corpus: (language id, text with ⟦…⟧ = non-prose, ⟪…⟫ = ignored; every other
/// lower-case ASCII word ≥ 3 letters outside brackets is NOT judged — only bracketed ranges and
/// words wrapped in ‹…› (prose) are)
fn corpus() -> Vec<(&'static str, &'static str)> {
    vec![
        ("rust", "⟦fn main() { let s = \"héllo // wörld 😀\"; }⟧ // ‹the› ‹quick› ‹fox›\n"),
        ("rust", "⟦let s = \"😀😀😀\";⟧ /* ‹over› /* ‹lazy› */ ‹dog› */\n"),
        ("python", "⟪#!/usr/bin/env prögram⟫\n⟦x = \"é # not\"⟧\n# ‹every› ‹morning›\n"),
        ("python", "⟦x = 1⟧ ⟪# spellchecker:ignore zqxv wörd⟫\n⟦y = 2⟧\n# ‹small› ‹mistakes›\n"),
        ("javascript", "⟦const s = \"é😀\";⟧\n/**\n * ‹this› ‹function› ⟦{@link Fóo}⟧ ‹returns›\n * ⟦@param zqxü⟧ thing\n */\n"),
        ("java", "⟦class A { String s = \"é😀\"; }⟧\n/**\n * ‹this› ‹function› ‹returns›\n * ⟦@param zqxü⟧ ‹value›\n */\n"),
        ("go", "⟦var s = \"é😀\"⟧\n⟦//go:generate zqtool wörd⟧\n⟦var t = 1⟧\n// ‹please› ‹check›\n"),
        ("markdown", "# ‹house›\n\n‹the› ⟦`fóo😀`⟧ ‹garden› [‹river›](⟦https://example.com/päge⟧)\n\n⟦```\nlet é = 1;\n```⟧\n"),
        ("html", "⟦<p title=\"é😀\">⟧‹stone› ‹friend›⟦</p>⟧⟦<script>var x = \"wörd teh\";</script>⟧"),
        ("typst", "= ‹letter›\n‹number› ⟦$x^2 + ü$⟧ ‹water›\n⟦#let zq = 1⟧\n"),
        ("lhaskell", "‹bread› ‹light›\n\n⟦> zq = \"é😀\"⟧\n\n‹stone›\n"),
        ("lhaskell", "‹bread›\n⟦\\begin{code}⟧\n⟦zq = \"é😀 teh\"⟧\n⟦\\end{code}⟧\n‹stone›\n"),
        ("git-commit", "‹first› ‹second›\n\n‹third› ⟦`é😀`⟧ ‹house›\n⟪# Please enter the cömmit message⟫\n⟪# teh zqxv⟫\n"),
        ("lua", "⟦local s = \"é -- 😀\"⟧\n-- ‹table› ‹paper›\n"),
        ("haskell", "⟦zq = \"é -- 😀\"⟧\n-- ‹table› ‹paper›\n"),
        ("ruby", "⟦s = \"é # 😀\"⟧\n# ‹music› ‹water›\n"),
    ]
}

fn parse_corpus(s: &str) -> (String, Vec<Zone>) {
    let mut text = String::new();
    let mut n = 0usize;
    let mut zones = vec![];
    let mut open: Option<(usize, ZK)> = None;
    for c in s.chars() {
        match c {
            '⟦' => open = Some((n, ZK::NonProse)),
            '⟪' => open = Some((n, ZK::Ignored)),
            '‹' => open = Some((n, ZK::Prose)),
            '⟧' | '⟫' | '›' => {
                if let Some((a, k)) = open.take() {
                    zones.push(Zone { s: a, e: n, kind: k, what: "corpus".into() });
                }
            }
            _ => {
                text.push(c);
                n += 1;
            }
        }
    }
    (text, zones)
}

pub fn run(ctx: &Ctx) {
    let mut sess = Session::new(ctx);
    let mut rng = Rng::new(ctx.seed);
    if let Some(v) = replay_input(ctx) {
        if v.get("kop").is_some() {
            kglue::replay(&mut sess, &v);
        } else {
            let id = v["frontend"].as_str().unwrap_or("markdown").to_string();
            let ilt = v["ilt"].as_bool().unwrap_or(false);
            let text = v["text"].as_str().unwrap_or("").to_string();
            let zones = zones_from_json(&v["zones"]);
            let taints: Vec<String> = v["taints"].as_array().map(|a| a.iter().filter_map(|x| x.as_str().map(String::from)).collect()).unwrap_or_default();
            let o = eval_file(&id, ilt, &text, &zones, &taints);
            sess.o();
            for (class, desc) in o.fails {
                sess.fail(&class, desc, input_json(&id, ilt, &text, &zones, &taints), None);
            }
        }
        sess.nontrivial("replay-a");
        sess.nontrivial("replay-b");
        sess.finish("replay of one recorded input", false, json!({}));
        return;
    }

    // ---- K: glue models vs real glue -----------------------------------------------------
    kglue::run(ctx, &mut sess, &mut rng);

    // ---- O: ground truth -----------------------------------------------------------------
    // the vocabulary really is dictionary words
    {
        use harper_core::Dictionary;
        let dict = FstDictionary::curated();
        for w in cgen::WORDS {
            let cs: Vec<char> = w.chars().collect();
            sess.monitor("prose vocabulary is in the curated dictionary", dict.contains_word(&cs));
        }
    }
    let markers = cgen::ignore_markers();
    sess.add("ignore-markers", markers.len() as u64);
    let ids = frontends::language_ids();
    sess.add("frontends", ids.len() as u64);
    let per_front = if ctx.tier == Tier::Thorough { 20000 } else { 2500 };
    struct Job {
        id: String,
        ilt: bool,
        b: B,
    }
    let taints_of = |b: &B| -> Vec<String> { b.taints.iter().map(|s| s.to_string()).collect() };
    let mut evaluated = 0usize;
    let mut run_batch = |sess: &mut Session, jobs: Vec<Job>| {
        let outs = par_map(jobs.len(), 16, |i| eval_file(&jobs[i].id, jobs[i].ilt, &jobs[i].b.text, &jobs[i].b.zones, &taints_of(&jobs[i].b)));
        for (i, o) in outs.into_iter().enumerate() {
            let j = &jobs[i];
            sess.o();
            sess.count(&format!("front:{}", j.id));
            for f in &j.b.feats {
                sess.count(&format!("feature:{}", f));
            }
            for f in &j.b.taints {
                sess.count(&format!("taint:{}", f));
            }
            if j.b.eol == "\r\n" {
                sess.count("eol:crlf");
            }
            sess.add("prose-words-judged", o.words_checked as u64);
            sess.add("nonprose-zones", j.b.zones.iter().filter(|z| z.kind == ZK::NonProse).count() as u64);
            sess.add("ignored-zones", j.b.zones.iter().filter(|z| z.kind == ZK::Ignored).count() as u64);
            if j.b.feats.len() >= 3 && !j.b.text.is_ascii() {
                sess.nontrivial(&j.b.text);
            }
            if evaluated % 19997 == 0 {
                sess.sample(json!({"frontend": j.id, "text": trunc(&j.b.text, 240)}));
            }
            evaluated += 1;
            for (class, desc) in o.fails {
                let what = desc.split('`').nth(1).unwrap_or("-").to_string();
                sess.count(&format!("ofail:{}:{}:{}", class, j.id, what));
                sess.fail(&class, format!("[{}{}] {}", j.id, if j.ilt { "+ilt" } else { "" }, desc), input_json(&j.id, j.ilt, &j.b.text, &j.b.zones, &taints_of(&j.b)), None);
            }
        }
    };
    // 1. corpus
    let mut jobs: Vec<Job> = vec![];
    for (id, s) in corpus() {
        let (text, zones) = parse_corpus(s);
        let mut b = B::new(false);
        b.text = text;
        b.n = b.text.chars().count();
        b.zones = zones;
        b.feats.push("corpus");
        jobs.push(Job { id: id.to_string(), ilt: false, b });
    }
    run_batch(&mut sess, jobs);
    // 2. generated files for every language id of the server's table (in batches)
    let only = std::env::var("C04_ONLY").ok();
    for id in &ids {
        if only.as_ref().is_some_and(|o| o != id) {
            continue;
        }
        if frontends::parser_for(id, false).is_none() {
            sess.monitor(&format!("frontend-known:{}", id), false);
            continue;
        }
        let mut r = rng.fork();
        let mut jobs: Vec<Job> = vec![];
        for j in 0..per_front {
            let ilt = j % 5 == 4;
            match cgen::gen_file(&mut r, id, ilt, &markers) {
                Some(b) => jobs.push(Job { id: id.clone(), ilt, b }),
                None => {
                    sess.monitor(&format!("generator-for-language:{}", id), false);
                    break;
                }
            }
            if jobs.len() >= 10000 {
                run_batch(&mut sess, std::mem::take(&mut jobs));
            }
        }
        run_batch(&mut sess, jobs);
    }
    sess.finish(
        "K: Lean glue models vs the real glue — byte_spans_to_char_spans + Mask::push_allowed + merge_whitespace_sep through TreeSitterMasker::create_mask (real tree-sitter node byte ranges passed as data), CommentMasker::create_mask (masker.rs compiled in with #[path]: tree-sitter mask, then the ignore-marker filter with the default ignore_condition, then Mask::from_iter; op `cmask`: every marker spelling and near-misses, `#!` spans, merged neighbours; on the REAL masks the oracle checks kept = spans of the tree-sitter mask without a marker / leading `#!`, in order), parsers::Mask through a public Masker with recorded inner-parser tokens, Unit/JsDoc line splitting and leader stripping and the JSDoc inline-tag marker through the real comment parsers with a recording inner parser, with the span-only faithfulness predicate of jsdocParse_span_faithful / javadocParse_span_faithful evaluated on the REAL JsDoc / JavaDoc output of every such case (same spans in the same order as the recorded inner tokens shifted to the stripped line / comment body, kinds kept or Unlintable, line breaks at Σ(len+1)+len, only `*`/space leaders lost; in bounds and ordered when the inner tokens are), the Literate Haskell masker through LiterateHaskellParser, the git-commit cut, OffsetCursor::push_to, the Markdown traversed_bytes/chars advance against pulldown-cmark's real event ranges; corpus, exhaustive small scope (all line lists / texts over small alphabets), structured random with multi-byte text. O: for EVERY language id of the server's table, files assembled from code | comment | markup segments with recorded ground truth (prose = plain dictionary words; multi-byte, astral and combining characters in string literals, code, tags, math, inline code; random indentation; line/block/doc/nested comments; LF and CRLF): every prose word is exactly one Word token at its true character offset; no token other than Unlintable/Url/whitespace/breaks overlaps a non-prose segment; no Word overlaps a delimiter; comments with an ignore marker, shebang lines and the `#` part of a commit message contribute no tokens. Non-trivial = a generated file with ≥3 distinct constructs and non-ASCII content; distinct by text.",
        true,
        json!({"language_ids": ids, "ignore_markers": markers, "files_per_language": per_front}),
    );
}
