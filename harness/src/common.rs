//! Shared harness plumbing: PRNG, case/oracle recording, panic capture, report.
use serde_json::{Value, json};
use std::collections::{BTreeMap, HashSet};
use std::fs::File;
use std::io::{BufWriter, Write};
use std::path::PathBuf;

/// splitmix64 — the single PRNG every random choice derives from.
#[derive(Clone)]
pub struct Rng(pub u64);
impl Rng {
    pub fn new(seed: u64) -> Self {
        Rng(seed ^ 0x9E3779B97F4A7C15)
    }
    pub fn next(&mut self) -> u64 {
        self.0 = self.0.wrapping_add(0x9E3779B97F4A7C15);
        let mut z = self.0;
        z = (z ^ (z >> 30)).wrapping_mul(0xBF58476D1CE4E5B9);
        z = (z ^ (z >> 27)).wrapping_mul(0x94D049BB133111EB);
        z ^ (z >> 31)
    }
    pub fn below(&mut self, n: usize) -> usize {
        if n == 0 { 0 } else { (self.next() % n as u64) as usize }
    }
    pub fn range(&mut self, lo: usize, hi: usize) -> usize {
        lo + self.below(hi - lo + 1)
    }
    pub fn chance(&mut self, num: usize, den: usize) -> bool {
        self.below(den) < num
    }
    pub fn pick<'a, T>(&mut self, xs: &'a [T]) -> &'a T {
        &xs[self.below(xs.len())]
    }
    pub fn fork(&mut self) -> Rng {
        Rng(self.next())
    }
}

#[derive(Clone, Copy, PartialEq, Eq, Debug)]
pub enum Tier {
    Quick,
    Thorough,
}

pub struct Ctx {
    pub prop: String,
    pub tier: Tier,
    pub seed: u64,
    pub out: PathBuf,
    pub replay: Option<PathBuf>,
}

pub struct Failure {
    pub class: String,
    pub desc: String,
    pub input: Value,
    pub case: Option<usize>,
}

/// One run's record: K lines (ops.txt / impl.out in lockstep), O failures, statistics.
pub struct Session {
    ops: BufWriter<File>,
    imp: BufWriter<File>,
    pub k_cases: usize,
    pub o_cases: usize,
    pub failures: Vec<Failure>,
    pub stats: BTreeMap<String, u64>,
    pub monitors: BTreeMap<String, (u64, u64)>,
    pub samples: Vec<Value>,
    nontrivial: HashSet<u64>,
    pub out: PathBuf,
}

fn h64(s: &str) -> u64 {
    use std::hash::{Hash, Hasher};
    let mut h = std::collections::hash_map::DefaultHasher::new();
    s.hash(&mut h);
    h.finish()
}

impl Session {
    pub fn new(ctx: &Ctx) -> Self {
        std::fs::create_dir_all(&ctx.out).unwrap();
        let ops = BufWriter::new(File::create(ctx.out.join("ops.txt")).unwrap());
        let imp = BufWriter::new(File::create(ctx.out.join("impl.out")).unwrap());
        Session {
            ops,
            imp,
            k_cases: 0,
            o_cases: 0,
            failures: vec![],
            stats: BTreeMap::new(),
            monitors: BTreeMap::new(),
            samples: vec![],
            nontrivial: HashSet::new(),
            out: ctx.out.clone(),
        }
    }
    /// A correspondence case: the op line handed to the model and what the implementation did.
    /// Returns the 0-based line number.
    pub fn k(&mut self, op: &str, imp: &str) -> usize {
        debug_assert!(!op.contains('\n') && !imp.contains('\n'));
        writeln!(self.ops, "{}", op).unwrap();
        writeln!(self.imp, "{}", imp).unwrap();
        if self.samples.len() < 6 && (self.k_cases % 97 == 0) {
            self.samples.push(json!({"op": trunc(op, 300), "impl": trunc(imp, 300)}));
        }
        self.k_cases += 1;
        self.k_cases - 1
    }
    /// An oracle-only case.
    pub fn o(&mut self) {
        self.o_cases += 1;
    }
    pub fn sample(&mut self, v: Value) {
        if self.samples.len() < 12 {
            self.samples.push(v);
        }
    }
    /// Mark a case as non-trivial (by a per-property rule); distinctness by key.
    pub fn nontrivial(&mut self, key: &str) {
        self.nontrivial.insert(h64(key));
    }
    pub fn count(&mut self, key: &str) {
        *self.stats.entry(key.to_string()).or_insert(0) += 1;
    }
    pub fn add(&mut self, key: &str, n: u64) {
        *self.stats.entry(key.to_string()).or_insert(0) += n;
    }
    /// An assumption monitor: evaluated, and whether it held.
    pub fn monitor(&mut self, key: &str, held: bool) {
        let e = self.monitors.entry(key.to_string()).or_insert((0, 0));
        e.0 += 1;
        if !held {
            e.1 += 1;
        }
    }
    /// The property itself failed on the implementation.
    pub fn fail(&mut self, class: &str, desc: String, input: Value, case: Option<usize>) {
        self.count(&format!("fail:{}", class));
        if self.failures.iter().filter(|f| f.class == class).count() < 20 {
            self.failures.push(Failure { class: class.to_string(), desc, input, case });
        }
    }
    pub fn finish(mut self, rule: &str, exhaustive: bool, extra: Value) {
        self.ops.flush().unwrap();
        self.imp.flush().unwrap();
        let fails: Vec<Value> = self
            .failures
            .iter()
            .map(|f| json!({"class": f.class, "desc": f.desc, "input": f.input, "case": f.case}))
            .collect();
        let mons: BTreeMap<String, Value> = self
            .monitors
            .iter()
            .map(|(k, (e, f))| (k.clone(), json!({"evaluated": e, "failed": f})))
            .collect();
        let rep = json!({
            "k_cases": self.k_cases,
            "o_cases": self.o_cases,
            "distinct_nontrivial": self.nontrivial.len(),
            "rule": rule,
            "exhaustive": exhaustive,
            "samples": self.samples,
            "failures": fails,
            "fail_counts": self.stats.iter().filter(|(k, _)| k.starts_with("fail:")).collect::<BTreeMap<_, _>>(),
            "distribution": self.stats.iter().filter(|(k, _)| !k.starts_with("fail:")).collect::<BTreeMap<_, _>>(),
            "monitors": mons,
            "extra": extra,
        });
        std::fs::write(self.out.join("report.json"), serde_json::to_string_pretty(&rep).unwrap()).unwrap();
    }
}

pub fn trunc(s: &str, n: usize) -> String {
    if s.chars().count() <= n { s.to_string() } else { s.chars().take(n).collect::<String>() + "…" }
}

thread_local! { static LAST_PANIC_LOC: std::cell::RefCell<String> = std::cell::RefCell::new(String::new()); }

/// Run `f`, turning a panic into `Err("message @ file:line")`. The default hook is replaced by
/// `quiet_panics`, which records the location.
pub fn guarded<T>(f: impl FnOnce() -> T) -> Result<T, String> {
    match std::panic::catch_unwind(std::panic::AssertUnwindSafe(f)) {
        Ok(v) => Ok(v),
        Err(e) => {
            let msg = if let Some(s) = e.downcast_ref::<String>() {
                s.clone()
            } else if let Some(s) = e.downcast_ref::<&str>() {
                s.to_string()
            } else {
                "panic".to_string()
            };
            let loc = LAST_PANIC_LOC.with(|l| l.borrow().clone());
            Err(format!("{} @ {}", trunc(&msg, 160), loc))
        }
    }
}

pub fn quiet_panics() {
    std::panic::set_hook(Box::new(|info| {
        let loc = info.location().map(|l| format!("{}:{}", l.file().trim_start_matches("/repo/"), l.line())).unwrap_or_default();
        LAST_PANIC_LOC.with(|l| *l.borrow_mut() = loc);
    }));
}

/// Run `f` on a helper thread with a watchdog; `None` = did not finish in time (a hang).
pub fn with_timeout<T: Send + 'static>(
    ms: u64,
    f: impl FnOnce() -> T + Send + 'static,
) -> Option<Result<T, String>> {
    let (tx, rx) = std::sync::mpsc::channel();
    std::thread::Builder::new()
        .stack_size(64 << 20)
        .spawn(move || {
            let r = guarded(f);
            let _ = tx.send(r);
        })
        .unwrap();
    rx.recv_timeout(std::time::Duration::from_millis(ms)).ok()
}

pub fn chars_field(cs: &[char]) -> String {
    let mut s = String::new();
    for (i, c) in cs.iter().enumerate() {
        if i > 0 {
            s.push(' ');
        }
        s.push_str(&(*c as u32).to_string());
    }
    s
}

/// Run `work(i)` for `i in 0..n` on `threads` threads, collecting results in order.
pub fn par_map<T: Send, F: Fn(usize) -> T + Sync>(n: usize, threads: usize, work: F) -> Vec<T> {
    use std::sync::atomic::{AtomicUsize, Ordering};
    let next = AtomicUsize::new(0);
    let mut slots: Vec<Option<T>> = (0..n).map(|_| None).collect();
    let slots_ptr = std::sync::Mutex::new(&mut slots);
    std::thread::scope(|s| {
        for _ in 0..threads.max(1) {
            s.spawn(|| {
                loop {
                    let i = next.fetch_add(1, Ordering::Relaxed);
                    if i >= n {
                        break;
                    }
                    let v = work(i);
                    slots_ptr.lock().unwrap()[i] = Some(v);
                }
            });
        }
    });
    slots.into_iter().map(|x| x.unwrap()).collect()
}

/// The `input` object of a replay file written by `check` (or the file itself if it has none).
pub fn replay_input(ctx: &Ctx) -> Option<Value> {
    let p = ctx.replay.as_ref()?;
    let v: Value = serde_json::from_str(&std::fs::read_to_string(p).ok()?).ok()?;
    Some(v.get("input").cloned().unwrap_or(v))
}
