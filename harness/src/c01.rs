//! C01 — never crashes or hangs: every front-end × every prefix × configurations × dialects,
//! with a watchdog; plus growth measurements for pathological text families.
use crate::common::*;
use crate::frontends::{self, Wrap};
use crate::textgen;
use harper_core::linting::{LintGroup, Linter};
use harper_core::parsers::Parser;
use harper_core::{Dialect, Document, FstDictionary};
use serde_json::{Value, json};
use std::cell::RefCell;
use std::collections::HashMap;
use std::time::Instant;

pub const DIALECTS: [Dialect; 4] = [Dialect::American, Dialect::British, Dialect::Canadian, Dialect::Australian];

thread_local! {
    static GROUPS: RefCell<HashMap<(usize, usize), LintGroup>> = RefCell::new(HashMap::new());
}

/// lint with a per-thread long-lived group for (dialect, config kind): 0 = curated default,
/// 1 = every rule on, 2 = a pseudo-random half of the rules on
pub fn lint_with(dialect: usize, cfg: usize, doc: &Document) -> usize {
    GROUPS.with(|g| {
        let mut g = g.borrow_mut();
        let group = g.entry((dialect, cfg)).or_insert_with(|| {
            let mut lg = LintGroup::new_curated(FstDictionary::curated(), DIALECTS[dialect]);
            match cfg {
                1 => lg.set_all_rules_to(Some(true)),
                2 => {
                    let keys: Vec<String> = lg.iter_keys().map(|s| s.to_string()).collect();
                    for (i, k) in keys.iter().enumerate() {
                        lg.config.set_rule_enabled(k, (i * 7 + 3) % 5 < 3);
                    }
                }
                _ => {}
            }
            lg
        });
        group.lint(doc).len()
    })
}

#[derive(Clone)]
pub struct Job {
    pub id: String,
    pub ilt: bool,
    pub wrap: Wrap,
    pub text: String,
    pub dialect: usize,
    pub cfg: usize,
}

impl Job {
    pub fn name(&self) -> String {
        format!("{}{}{}", self.id, if self.ilt { "+ilt" } else { "" }, match self.wrap { Wrap::None => "", Wrap::Collapse => "+collapse", Wrap::Isolate => "+isolate" })
    }
    pub fn to_json(&self, text: &str) -> Value {
        json!({"frontend": self.name(), "dialect": self.dialect, "config": self.cfg, "text": text})
    }
}

/// parse + lint one text; Err = panic message with location
pub fn run_one(job: &Job, text: &str) -> Result<usize, String> {
    let Some(parser) = frontends::wrapped(&job.id, job.ilt, job.wrap) else { return Ok(0) };
    guarded(|| {
        let dict = FstDictionary::curated();
        let doc = Document::new(text, &parser, &dict);
        lint_with(job.dialect, job.cfg, &doc)
    })
}

/// the prefixes an editor session passes through: every character for short texts, every
/// token-ish boundary ± 1 beyond; some with trailing whitespace
pub fn prefixes(text: &str, rng: &mut Rng) -> Vec<String> {
    let cs: Vec<char> = text.chars().collect();
    let mut cuts: Vec<usize> = vec![];
    if cs.len() <= 200 {
        cuts.extend(0..=cs.len());
    } else {
        for i in 1..cs.len() {
            let boundary = cs[i].is_alphanumeric() != cs[i - 1].is_alphanumeric() || !cs[i].is_alphanumeric();
            if boundary {
                cuts.push(i - 1);
                cuts.push(i);
                cuts.push(i + 1);
            }
        }
        cuts.push(cs.len());
        cuts.sort();
        cuts.dedup();
    }
    let mut out = vec![];
    for c in cuts {
        let p: String = cs[..c.min(cs.len())].iter().collect();
        if rng.chance(1, 8) {
            out.push(format!("{}{}", p, rng.pick(&[" ", "\n", "\t", "  ", "\n\n"])));
        }
        out.push(p);
    }
    out
}

fn classify(msg: &str, _text: &str) -> String {
    // class = source location of the panic: two different panics are two different findings
    let loc = msg.rsplit(" @ ").next().unwrap_or("");
    format!("panic@{}", loc)
}

pub struct UnitResult {
    pub docs: usize,
    pub fails: Vec<(String, String, Value)>,
    pub slow_ms: u128,
}

/// The dictionary every front-end really lints with is a MERGED one (curated + the user's words +,
/// for source files, the identifiers of the file): `MutableDictionary`'s own code paths (its fuzzy
/// search runs the `u8` edit distance behind a length window) are reached only through it. Plain
/// English and Markdown documents with very long words, words near the user's words, hostile
/// characters; `Document::new` and the curated rules over `MergedDictionary[curated, user]`.
fn merged_stream(sess: &mut Session, ctx: &Ctx, rng: &mut Rng, only: Option<(String, bool)>) {
    use harper_core::parsers::{Markdown, PlainEnglish};
    use harper_core::{MergedDictionary, MutableDictionary, WordMetadata};
    use std::sync::Arc;
    let user_words = ["hello", "zqident", "Zqxvword", "o'zq", "naïvetéx", "ab", "abcdefghijklmnopqrstuvwxyzabcdefghijklmnopqrstuvwxyz"];
    let mk = move || {
        let mut user = MutableDictionary::new();
        for w in user_words {
            user.append_word_str(w, WordMetadata::default());
        }
        let mut m = MergedDictionary::new();
        m.add_dictionary(FstDictionary::curated());
        m.add_dictionary(Arc::new(user));
        Arc::new(m)
    };
    let mut texts: Vec<String> = vec![];
    // every word length around the u8 boundaries (the window of the fuzzy search is ± 3 letters)
    for n in (245..=275).chain(505..=520).chain([1000, 1023, 1024, 1025, 4096]) {
        texts.push(format!("The value is {} here.", "a".repeat(n)));
        if n % 3 == 0 {
            texts.push(format!("{} {}", "hellox".repeat(n / 6 + 1).chars().take(n).collect::<String>(), "Ab".repeat(n / 2)));
        }
    }
    for w in user_words {
        texts.push(format!("We saw {}x and {} and x{} today.", w, w.to_uppercase(), w));
    }
    let nrand = if ctx.tier == Tier::Thorough { 600 } else { 60 };
    for _ in 0..nrand {
        let mut t = textgen::text(rng);
        if rng.chance(1, 3) {
            t.push(' ');
            t.push_str(&"é".repeat(rng.range(250, 270)));
        }
        texts.push(t);
    }
    let only_md = only.as_ref().map(|o| o.1);
    if let Some((t, _)) = only {
        texts = vec![t];
    }
    let results = par_map(texts.len(), 16, |i| {
        let text = texts[i].clone();
        let md = only_md.unwrap_or(i % 4 == 3);
        let t2 = text.clone();
        let r = with_timeout(30000, move || {
            guarded(|| {
                let dict = mk();
                let doc = if md { Document::new(&t2, &Markdown::default(), &dict) } else { Document::new(&t2, &PlainEnglish, &dict) };
                let mut g = LintGroup::new_curated(dict.clone(), Dialect::American);
                g.config.fill_with_curated();
                g.lint(&doc).len()
            })
        });
        (text, md, r)
    });
    for (text, md, r) in results {
        sess.o();
        sess.count("origin:merged-dictionary");
        let inp = json!({"frontend": if md { "markdown+merged-dictionary" } else { "plaintext+merged-dictionary" }, "text": text, "user_words": user_words});
        match r {
            None => sess.fail("hang", format!("Document::new + lint over a merged dictionary did not finish within 30 s on a {}-char text", text.chars().count()), inp, None),
            Some(Ok(Err(m))) => sess.fail(&classify(&m, &text), format!("Document::new + lint over MergedDictionary[curated, user] panicked: {}", m), inp, None),
            Some(Err(m)) => sess.fail("harness-panic", m, inp, None),
            Some(Ok(Ok(_))) => {
                if text.chars().count() > 250 {
                    sess.nontrivial(&format!("merged|{}", text.chars().count()));
                }
            }
        }
    }
}

/// all prefixes of one text through one front-end, on a watchdog thread
pub fn run_unit(job: &Job, prefs: &[String]) -> UnitResult {
    let j = job.clone();
    let ps: Vec<String> = prefs.to_vec();
    let t0 = Instant::now();
    let budget = 4000 + 30 * prefs.len() as u64;
    let r = with_timeout(budget, move || {
        let mut fails = vec![];
        for p in &ps {
            if let Err(m) = run_one(&j, p) {
                if fails.len() < 3 {
                    fails.push((classify(&m, p), format!("{} panicked: {}", j.name(), m), j.to_json(p)));
                }
            }
        }
        fails
    });
    match r {
        Some(Ok(fails)) => UnitResult { docs: prefs.len(), fails, slow_ms: t0.elapsed().as_millis() },
        Some(Err(m)) => UnitResult { docs: prefs.len(), fails: vec![("harness-panic".into(), m, job.to_json(""))], slow_ms: 0 },
        None => {
            // did not finish: find the prefix that hangs, one watchdog each
            let mut fails = vec![];
            for p in prefs {
                let j = job.clone();
                let p2 = p.clone();
                let mut r = with_timeout(3000, move || run_one(&j, &p2));
                if r.is_none() {
                    // a real hang never finishes; a slow document under machine load does: ask again, patiently
                    let (j, p2) = (job.clone(), p.clone());
                    r = with_timeout(30000, move || run_one(&j, &p2));
                }
                match r {
                    None => {
                        // where does it hang? if the front-end's parser alone (for a programming
                        // language: the tree-sitter grammar, before any Harper code sees a token)
                        // does not return either, the class names that grammar
                        let class = {
                            let (id, p3) = (job.id.clone(), p.clone());
                            let parse_only = with_timeout(8000, move || {
                                let parser = frontends::parser_for(&id, false);
                                let cs: Vec<char> = p3.chars().collect();
                                parser.map(|pp| pp.parse(&cs).len())
                            });
                            let ts = harper_comments::CommentParser::new_from_language_id(&job.id, frontends::md_opts(false)).is_some();
                            if parse_only.is_none() && ts { format!("hang-in-tree-sitter-grammar:{}", job.id) } else { "hang".to_string() }
                        };
                        fails.push((class, format!("{} did not finish within 30 s on a {}-char text", job.name(), p.chars().count()), job.to_json(p)));
                        break; // the stuck thread keeps a core busy; one witness is enough
                    }
                    Some(Ok(Err(m))) => fails.push((classify(&m, p), format!("{} panicked: {}", job.name(), m), job.to_json(p))),
                    _ => {}
                }
            }
            // every prefix finished within its own 3 s watchdog: slow as a batch (machine load), not a hang
            UnitResult { docs: prefs.len(), fails, slow_ms: t0.elapsed().as_millis() }
        }
    }
}

/// growth exponent of parse+lint time for a text family: t(n) ~ n^k between 2n and 8n
fn growth(family: &str, make: &dyn Fn(usize) -> String, base: usize) -> (f64, Vec<(usize, f64)>) {
    let job = Job { id: "plaintext".into(), ilt: false, wrap: Wrap::None, text: String::new(), dialect: 0, cfg: 1 };
    let mut pts = vec![];
    for mult in [1usize, 2, 4, 8] {
        let text = make(base * mult);
        let mut best = f64::MAX;
        for _ in 0..2 {
            let t0 = Instant::now();
            let _ = run_one(&job, &text);
            best = best.min(t0.elapsed().as_secs_f64());
        }
        pts.push((text.chars().count(), best));
    }
    let _ = family;
    let (n2, t2) = pts[1];
    let (n8, t8) = pts[3];
    let k = if t2 < 0.004 { 0.0 } else { (t8 / t2).ln() / ((n8 as f64) / (n2 as f64)).ln() };
    (k, pts)
}

// ------------------------------------------------------------------------------------------
// w25: the same statement at the OTHER places where a text becomes a document and is linted —
// the language server's own dispatch (`Backend::update_document`, reached by didOpen / didChange
// under every language id, with default / all-rules / isolateEnglish / other-dialect
// configurations), the JS API (`harper_wasm::Linter::{lint, is_likely_english, isolate_english}`,
// four dialects, default and all-rules configuration) and the command line (`harper-cli lint /
// parse / spans` by file extension); growth of Markdown and comment front-ends.
// ------------------------------------------------------------------------------------------

/// witnesses of every panic / hang found so far (the corpus of `run`, shared with the new streams)
const W25_CORPUS: &[&str] = &[
    "the how", "better then ", "It is better then ", "/** {@link */", "/** See {@link Foo", ">", "> ", "\\begin{code}\n>",
    "First. one two three four five six seven eight nine ten eleven twelve thirteen fourteen fifteen sixteen seventeen eighteen nineteen twenty twenty-one two three four five six seven eight nine thirty one two three four five six seven eight nine forty one two\n",
    "#let", "#let x", "#set text(lang:", "#f(a\nb $x$ c", "#let x = _(1)", "#{_()}", "//go:x\n//\n", "//go:generate\n//", "//go:x \n//\n", "[[||]]", "See [[|alias|extra]]", "\\[[target|alias|extra]]", "[[a|[b](x)|c]]", "![[b c|]]b c[- ", "[[a|]]b c d", " ```\n\tx", "$$$$x", "You could of \ncourse do it.", "He should of\n course.", "See e.g.", "e.g.", "1e999$", "0x", "[a-", "a@", "http://", "x:", "\"", "'", "’s",
    "", " ", "\n", "\r\n", "\r", "\u{feff}", "a\u{301}\u{301}\u{301} 😀😀 𝒳𝒳 ｆｕｌｌｗｉｄｔｈ", "word\rword\r\rword", "# a\r\r~~~\rb\r~~~\r",
];

/// texts for the main stream (every front-end, every prefix)
const W25_EXTRA: &[&str] = &[
    "word\rword\r\rword. the the",
    "# a\r\r~~~\rb\r~~~\r\rc",
    "a\r\n\r\n```\r\nb é\r\n```\r\nthe the\r\n",
    "> a\r> b\r\r1. c\r   - d 😀\r",
    "| a | b |\r|---|---|\r| c é | d |\r",
    "<div>\r</div>\r\rx é\r$$\rx\r$$\r",
    "\u{feff}# T\n\n\u{feff}an test",
    "ａｎ ｔｅｓｔ ｏｆ ｔｈｅ ｔｈｅ ｆｕｌｌｗｉｄｔｈ。",
    "a\u{301}\u{301}\u{301}n te\u{300}st 😀😀 of 𝒳𝒳 the\u{200b}the",
    "the\u{a0}the\u{2003}the\u{2028}the\u{2029}an apple\u{85}teh",
];

fn w25_all_rules_on() -> Value {
    let g = LintGroup::new_curated(FstDictionary::curated(), Dialect::American);
    let mut m = serde_json::Map::new();
    for k in g.iter_keys() {
        m.insert(k.to_string(), json!(true));
    }
    Value::Object(m)
}

/// the texts one editor session sends: witnesses as they are and embedded, then one text typed
/// character by character
fn w25_session_texts(rng: &mut Rng, id: &str, idx: usize, thorough: bool) -> Vec<String> {
    let mut out = vec![];
    let corpus: Vec<&str> = W25_CORPUS.iter().copied().chain(textgen::LEXER_CORNERS.iter().copied()).collect();
    for (k, c) in corpus.iter().enumerate() {
        if thorough || (k + idx) % 3 == 0 {
            out.push(c.to_string());
        }
        if thorough || (k + idx) % 5 == 0 {
            out.push(frontends::embed(id, c, k));
        }
    }
    let n = if thorough { 12 } else { 2 };
    for j in 0..n {
        let prose = textgen::prose(rng);
        out.push(if rng.chance(1, 2) { textgen::mutate(rng, &frontends::embed(id, &prose, j)) } else { frontends::embed(id, &prose, j) });
    }
    out.push(textgen::malformed(rng, 60));
    let typed: Vec<char> = frontends::embed(id, "We could of went their, e.g. the how.", idx).chars().collect();
    let step = if thorough { 1 } else { 3 };
    for c in (0..=typed.len()).step_by(step) {
        out.push(typed[..c].iter().collect());
    }
    // (recorded finding: the tree-sitter-dart grammar does not return on `[d.I`)
    if id == "dart" {
        out.retain(|t| !t.contains("[d.I"));
    }
    out
}

pub struct W25Fail {
    class: String,
    desc: String,
    input: Value,
}

/// one session of the real server under language id `id`: didOpen, then didChange for every
/// further text; after each the server must be idle and answering
fn w25_server_session(id: &str, cfg: &Value, texts: &[String]) -> (usize, usize, Option<W25Fail>) {
    use crate::lsclient::*;
    let uri = format!("file:///c01-server/{}/doc.src", id.replace(' ', "_"));
    let mut done = 0usize;
    let mut published = 0usize;
    let mut cur = String::new();
    let r: Result<(), LsError> = (|| {
        let mut ls = LsSession::start()?;
        ls.max_wait = std::time::Duration::from_secs(40);
        ls.initialize(cfg)?;
        for (n, t) in texts.iter().enumerate() {
            cur = t.clone();
            let before = ls.publications(&uri).len();
            if n == 0 {
                ls.notify("textDocument/didOpen", did_open(&uri, id, t))?;
            } else {
                ls.notify("textDocument/didChange", did_change(&uri, n as i64 + 1, t))?;
            }
            ls.quiesce(cfg)?;
            if ls.publications(&uri).len() > before {
                published += 1;
            }
            if n % 7 == 3 {
                let params = json!({"textDocument": {"uri": uri}, "range": {"start": {"line": 0, "character": 0}, "end": {"line": 0, "character": 1}}, "context": {"diagnostics": []}});
                ls.request_sync("textDocument/codeAction", params, cfg)?;
            }
            done += 1;
        }
        ls.shutdown(cfg)?;
        Ok(())
    })();
    let fail = r.err().map(|e| {
        let class = match &e {
            LsError::ServerPanicked(_) => "server-panic",
            LsError::Timeout(_) => "server-hang",
            LsError::ServerGone => "server-gone",
            LsError::Protocol(_) => "server-protocol-error",
        };
        W25Fail {
            class: class.to_string(),
            desc: format!("harper-ls, languageId {:?}, configuration {}: after sending a {}-char text the server {}", id, cfg, cur.chars().count(), e),
            input: json!({"stream": "server", "frontend": id, "config": cfg, "text": cur}),
        }
    });
    (done, published, fail)
}

fn w25_server_stream(sess: &mut Session, ctx: &Ctx, rng: &mut Rng, only: Option<(String, Value, String)>) {
    crate::lsclient::set_home(&ctx.out.join("c01-home"));
    let all_on = w25_all_rules_on();
    let cfgs = [
        json!({"harper-ls": {}}),
        json!({"harper-ls": {"linters": all_on}}),
        json!({"harper-ls": {"isolateEnglish": true}}),
        json!({"harper-ls": {"dialect": "British", "markdown": {"IgnoreLinkTitle": true}, "linters": {"SpellCheck": false, "NoSuchRule": true, "LongSentences": null}}}),
    ];
    let mut jobs: Vec<(String, Value, Vec<String>)> = vec![];
    if let Some((id, cfg, text)) = only {
        jobs.push((id, cfg, vec![text]));
    } else {
        for (idx, id) in frontends::language_ids().iter().enumerate() {
            if frontends::parser_for(id, false).is_none() {
                continue;
            }
            let mut r = rng.fork();
            let k = (idx + ctx.seed as usize) % cfgs.len();
            jobs.push((id.clone(), cfgs[k].clone(), w25_session_texts(&mut r, id, idx, ctx.tier == Tier::Thorough)));
            if ctx.tier == Tier::Thorough {
                jobs.push((id.clone(), cfgs[(k + 1) % cfgs.len()].clone(), w25_session_texts(&mut r, id, idx + 1, false)));
            }
        }
    }
    let outs = par_map(jobs.len(), 8, |i| w25_server_session(&jobs[i].0, &jobs[i].1, &jobs[i].2));
    for ((id, _, texts), (done, published, fail)) in jobs.iter().zip(outs.into_iter()) {
        for _ in 0..done.max(1) {
            sess.o();
        }
        sess.count(&format!("server:front:{}", id));
        sess.add("server:documents", done as u64);
        sess.add("server:publications", published as u64);
        if done == texts.len() && done > 20 {
            sess.nontrivial(&format!("server|{}|{}", id, done));
        }
        if let Some(f) = fail {
            sess.fail(&f.class, f.desc, f.input, None);
        }
    }
}

/// harper_wasm::Linter over every text: `lint` with both languages, `is_likely_english`,
/// `isolate_english`; one long-lived Linter per (dialect, configuration), on a watchdog
fn w25_wasm_stream(sess: &mut Session, ctx: &Ctx, rng: &mut Rng, only: Option<(usize, usize, String)>) {
    let mut texts: Vec<String> = W25_CORPUS.iter().chain(textgen::LEXER_CORNERS.iter()).map(|s| s.to_string()).collect();
    let n = if ctx.tier == Tier::Thorough { 600 } else { 40 };
    for j in 0..n {
        texts.push(match j % 4 {
            0 => textgen::text(rng),
            1 => textgen::malformed(rng, 80),
            2 => {
                let p = textgen::prose(rng);
                textgen::mutate(rng, &p)
            }
            _ => {
                let p = textgen::prose(rng);
                frontends::embed("markdown", &p, j)
            }
        });
    }
    for t in ["We could of went their, e.g. the how [[a|b]] `x` $y$.", "# T\n\n- [a](b \"c\") **d** better then \n\n```\nx\n```\n"] {
        let cs: Vec<char> = t.chars().collect();
        for c in 0..=cs.len() {
            texts.push(cs[..c].iter().collect());
        }
    }
    let mut batches: Vec<(usize, usize)> = vec![];
    for d in 0..4 {
        for cfg in 0..2 {
            batches.push((d, cfg));
        }
    }
    if let Some((d, cfg, t)) = only {
        batches = vec![(d, cfg)];
        texts = vec![t];
    }
    let all_on = w25_all_rules_on().to_string();
    let texts = std::sync::Arc::new(texts);
    let results = par_map(batches.len(), 8, |i| {
        let (d, cfg) = batches[i];
        let (texts, all_on) = (texts.clone(), all_on.clone());
        let budget = 60000 + 200 * texts.len() as u64;
        with_timeout(budget, move || {
            use harper_wasm::{Dialect as WDialect, Language, Linter as WLinter};
            let wd = [WDialect::American, WDialect::British, WDialect::Canadian, WDialect::Australian][d];
            let mut fails: Vec<(String, String)> = vec![];
            let mut js = WLinter::new(wd);
            if cfg == 1 {
                let _ = js.set_lint_config_from_json(all_on);
            }
            let mut docs = 0usize;
            for t in texts.iter() {
                for (what, r) in [
                    ("lint(Plain)", guarded(|| js.lint(t.clone(), Language::Plain).len())),
                    ("lint(Markdown)", guarded(|| js.lint(t.clone(), Language::Markdown).len())),
                    ("is_likely_english", guarded(|| js.is_likely_english(t.clone()) as usize)),
                    ("isolate_english", guarded(|| js.isolate_english(t.clone()).len())),
                ] {
                    docs += 1;
                    if let Err(m) = r {
                        if fails.len() < 5 {
                            fails.push((format!("{} panicked: {}", what, m), t.clone()));
                        }
                    }
                }
            }
            (docs, fails)
        })
    });
    for ((d, cfg), r) in batches.iter().zip(results.into_iter()) {
        sess.count(&format!("wasm:dialect:{}:cfg:{}", d, cfg));
        match r {
            None => sess.fail("wasm-hang", format!("harper_wasm::Linter (dialect {}, configuration {}) did not finish {} texts within the watchdog", d, cfg, texts.len()), json!({"stream": "wasm", "dialect": d, "config": cfg, "text": ""}), None),
            Some(Err(m)) => sess.fail("harness-panic", m, json!({"stream": "wasm", "dialect": d, "config": cfg, "text": ""}), None),
            Some(Ok((docs, fails))) => {
                for _ in 0..docs {
                    sess.o();
                }
                sess.add("wasm:calls", docs as u64);
                if fails.is_empty() && docs > 100 {
                    sess.nontrivial(&format!("wasm|{}|{}", d, cfg));
                }
                for (m, t) in fails {
                    let class = format!("wasm-{}", classify(&m, &t));
                    sess.fail(&class, format!("harper_wasm::Linter (dialect {}, configuration {}): {}", d, cfg, m), json!({"stream": "wasm", "dialect": d, "config": cfg, "text": t}), None);
                }
            }
        }
    }
}

/// the real `harper-cli` executable: `lint`, `parse`, `spans` on witness files of several
/// extensions; a panic ends the process with code 101 (or a signal), a hang never ends it
fn w25_cli_stream(sess: &mut Session, ctx: &Ctx, only: Option<(String, String, String)>) {
    let target = std::path::PathBuf::from(env!("CARGO_MANIFEST_DIR")).join("target").join("lsbin");
    let built = std::process::Command::new("cargo")
        .args(["build", "--offline", "--locked", "-p", "harper-cli", "--manifest-path", "/repo/Cargo.toml", "--target-dir"])
        .arg(&target)
        .env("CARGO_NET_OFFLINE", "true")
        .stdout(std::process::Stdio::null())
        .stderr(std::process::Stdio::null())
        .status()
        .map(|s| s.success())
        .unwrap_or(false);
    sess.count(if built { "cli:built" } else { "cli:not-built(stream skipped)" });
    if !built {
        return;
    }
    let bin = target.join("debug").join("harper-cli");
    let dir = ctx.out.join("c01-cli");
    let _ = std::fs::create_dir_all(&dir);
    // one file per extension: the witnesses, one per paragraph / comment
    let join = |lead: &str| -> String { W25_CORPUS.iter().filter(|c| !c.contains("[d.I")).map(|c| c.lines().map(|l| format!("{}{}", lead, l)).collect::<Vec<_>>().join("\n")).collect::<Vec<_>>().join("\n\n") + &format!("\n\n{}This is an test of the the thing 😀 teh.\n", lead) };
    let mut jobs: Vec<(String, String, String)> = vec![
        ("lint".into(), "md".into(), join("")),
        ("parse".into(), "md".into(), "See [[|alias|extra]] the how\n\nbetter then ".into()),
        ("lint".into(), "lhs".into(), format!("{}\n\n> x = 1\n\n>\n", join(""))),
        ("lint".into(), "typ".into(), "#let x = _(1)\n#{_()}\n= T\nthe how better then ".into()),
        ("lint".into(), "rs".into(), join("// ")),
        ("lint".into(), "js".into(), format!("/** {{@link */\n/** See {{@link Foo\n{}", join("// "))),
        ("lint".into(), "java".into(), "/** {@link */\nclass A {}\n/** See {@link Foo".into()),
        ("lint".into(), "go".into(), "//go:x \n//\n\n//go:generate\n//\npackage a\n// the how".into()),
        ("spans".into(), "py".into(), join("# ")),
        ("lint".into(), "c".into(), format!("/*\n{}\n*/", join(" * "))),
    ];
    if let Some(o) = only {
        jobs = vec![o];
    }
    let outs = par_map(jobs.len(), 10, |i| {
        let (cmd, ext, text) = &jobs[i];
        let file = dir.join(format!("w{}.{}", i, ext));
        let _ = std::fs::write(&file, text);
        let (bin, cmd, dir2) = (bin.clone(), cmd.clone(), dir.clone());
        with_timeout(120000, move || {
            let mut c = std::process::Command::new(&bin);
            c.arg(&cmd).arg(&file);
            if cmd == "lint" {
                c.arg("--user-dict-path").arg(dir2.join("no_user_dict.txt")).arg("--file-dict-path").arg(dir2.join("no_file_dicts"));
            }
            c.output().map(|o| (o.status.code(), String::from_utf8_lossy(&o.stderr).to_string())).ok()
        })
    });
    for ((cmd, ext, text), r) in jobs.iter().zip(outs.into_iter()) {
        sess.o();
        sess.count(&format!("cli:{}:{}", cmd, ext));
        let inp = json!({"stream": "cli", "command": cmd, "ext": ext, "text": text});
        match r {
            None => sess.fail("cli-hang", format!("`harper-cli {} w.{}` did not end within 120 s", cmd, ext), inp, None),
            Some(Ok(Some((code, err)))) => {
                // 0 = no lints, 1 = lints found (`lint`); a Rust panic ends with 101, a signal has no code
                if code.is_none() || code == Some(101) || err.contains("panicked at") {
                    let loc = err.split("panicked at ").nth(1).and_then(|s| s.split(|c: char| c == ':' || c == '\n').next()).unwrap_or("?").to_string();
                    sess.fail(&format!("cli-panic@{}", loc), format!("`harper-cli {} w.{}` ended with {:?}: {}", cmd, ext, code, trunc(&err, 300)), inp, None);
                } else {
                    sess.nontrivial(&format!("cli|{}|{}", cmd, ext));
                }
            }
            _ => sess.count("cli:not-started"),
        }
    }
}

/// growth of parse + lint time through the Markdown parser and a comment front-end
fn w25_growth(sess: &mut Session, ctx: &Ctx) -> Vec<Value> {
    // (these front-ends take ≈ 0.5 µs per character: larger texts, so that the times are measurable)
    let base = if ctx.tier == Tier::Thorough { 24000 } else { 12000 };
    let families: Vec<(&str, &str, Box<dyn Fn(usize) -> String>)> = vec![
        ("markdown: [[a|b]] runs on one line", "markdown", Box::new(|n| "[[a|b]] ".repeat(n / 8))),
        ("markdown: unclosed `[` and `*`", "markdown", Box::new(|n| "[a *b ".repeat(n / 6))),
        ("markdown: nested block quotes and lists", "markdown", Box::new(|n| "> - a\n".repeat(n / 6))),
        ("markdown: table rows", "markdown", Box::new(|n| format!("| a | b |\n|---|---|\n{}", "| the the | an apple |\n".repeat(n / 23)))),
        ("rust: // comment lines", "rust", Box::new(|n| "// This is an test of the the thing.\n".repeat(n / 37))),
        ("javascript: doc comment with inline tags", "javascript", Box::new(|n| format!("/**\n{} */\n", " * see {@link Foo} and the the thing\n".repeat(n / 36)))),
    ];
    let mut rows = vec![];
    for (name, id, make) in &families {
        let job = Job { id: id.to_string(), ilt: false, wrap: Wrap::None, text: String::new(), dialect: 0, cfg: 1 };
        let mut pts = vec![];
        for mult in [1usize, 2, 4, 8] {
            let text = make(base * mult);
            let mut best = f64::MAX;
            for _ in 0..2 {
                let t0 = Instant::now();
                if let Err(m) = run_one(&job, &text) {
                    sess.fail(&classify(&m, &text), format!("{} panicked on a {}-char text of family `{}`: {}", job.name(), text.chars().count(), name, m), job.to_json(&text), None);
                }
                best = best.min(t0.elapsed().as_secs_f64());
            }
            pts.push((text.chars().count(), best));
        }
        let (n2, t2) = pts[1];
        let (n8, t8) = pts[3];
        let k = if t2 < 0.004 { 0.0 } else { (t8 / t2).ln() / ((n8 as f64) / (n2 as f64)).ln() };
        sess.o();
        sess.count("origin:growth-frontend");
        rows.push(json!({"family": name, "exponent": (k * 100.0).round() / 100.0, "points": pts.iter().map(|(n, t)| json!([n, (t * 1e4).round() / 1e4])).collect::<Vec<_>>()}));
        if k > 3.2 {
            sess.fail("superpolynomial-growth", format!("family `{}`: time grows like n^{:.2} between 2n and 8n", name, k), json!({"family": name, "points": pts.iter().map(|(n, t)| json!([n, t])).collect::<Vec<_>>()}), None);
        }
    }
    rows
}

pub fn run(ctx: &Ctx) {
    let mut sess = Session::new(ctx);
    let mut rng = Rng::new(ctx.seed);
    if let Some(v) = replay_input(ctx) {
        if crate::leaves::replay(&mut sess, &v) || crate::prules::replay(&mut sess, &v) || crate::rules2::replay(&mut sess, &v) || crate::mrules::replay(&mut sess, &v) {
            sess.nontrivial("replay-a");
            sess.nontrivial("replay-b");
            sess.finish("replay of one recorded leaf / generic-rule input", false, json!({}));
            return;
        }
        if let Some(stream) = v["stream"].as_str() {
            // w25: a failure recorded at another call site
            let text = v["text"].as_str().unwrap_or("").to_string();
            match stream {
                "server" => w25_server_stream(&mut sess, ctx, &mut rng, Some((v["frontend"].as_str().unwrap_or("plaintext").to_string(), v["config"].clone(), text))),
                "cli" => w25_cli_stream(&mut sess, ctx, Some((v["command"].as_str().unwrap_or("lint").to_string(), v["ext"].as_str().unwrap_or("md").to_string(), text))),
                _ => w25_wasm_stream(&mut sess, ctx, &mut rng, Some((v["dialect"].as_u64().unwrap_or(0) as usize, v["config"].as_u64().unwrap_or(0) as usize, text))),
            }
            sess.nontrivial("replay-a");
            sess.nontrivial("replay-b");
            sess.finish("replay of one recorded input at another call site", false, json!({}));
            return;
        }
        let front = v["frontend"].as_str().unwrap_or("plaintext").to_string();
        if front.ends_with("+merged-dictionary") {
            merged_stream(&mut sess, ctx, &mut rng, Some((v["text"].as_str().unwrap_or("").to_string(), front.starts_with("markdown"))));
            sess.nontrivial("replay-a");
            sess.nontrivial("replay-b");
            sess.finish("replay of one recorded merged-dictionary input", false, json!({}));
            return;
        }
        let job = Job {
            id: front.split('+').next().unwrap().to_string(),
            ilt: front.contains("+ilt"),
            wrap: if front.contains("+collapse") { Wrap::Collapse } else if front.contains("+isolate") { Wrap::Isolate } else { Wrap::None },
            text: v["text"].as_str().unwrap_or("").to_string(),
            dialect: v["dialect"].as_u64().unwrap_or(0) as usize,
            cfg: v["config"].as_u64().unwrap_or(0) as usize,
        };
        let r = run_unit(&job, &[job.text.clone()]);
        sess.o();
        for (c, d, i) in r.fails {
            sess.fail(&c, d, i, None);
        }
        sess.nontrivial("replay-a");
        sess.nontrivial("replay-b");
        sess.finish("replay of one recorded input", false, json!({}));
        return;
    }
    // (development aid: only the w25 streams)
    if std::env::var("C01_W25_ONLY").is_ok() {
        let rows = w25_growth(&mut sess, ctx);
        w25_cli_stream(&mut sess, ctx, None);
        w25_wasm_stream(&mut sess, ctx, &mut rng, None);
        w25_server_stream(&mut sess, ctx, &mut rng, None);
        sess.finish("w25 streams only", false, json!({"growth": rows}));
        return;
    }
    let ids = frontends::language_ids();
    // ---- K: the pattern framework (matches / run_on_chunk / find_all_matches / chunk iterators)
    //         against the Lean model, see c01_pattern.rs --------------------------------------
    crate::c01_pattern::run_into(&mut sess, ctx, &mut rng);
    // ---- K: the real leaf patterns and the generic rule constructions, see leaves.rs ------------
    crate::leaves::run_into(&mut sess, ctx, &mut rng);
    crate::prules::run_into(&mut sess, ctx, &mut rng);
    merged_stream(&mut sess, ctx, &mut rng, None);
    crate::rules2::run_into(&mut sess, ctx, &mut rng);
    crate::mrules::run_into(&mut sess, ctx, &mut rng);
    // ---- jobs --------------------------------------------------------------------------------
    let mut jobs: Vec<Job> = vec![];
    let mut push = |id: &str, text: String, k: usize, jobs: &mut Vec<Job>| {
        jobs.push(Job { id: id.to_string(), ilt: k % 2 == 1, wrap: match k % 7 { 5 => Wrap::Collapse, 6 => Wrap::Isolate, _ => Wrap::None }, text, dialect: k % 4, cfg: (k / 2) % 3 });
    };
    // 1. corpus: witnesses of every panic/hang found so far, on every front-end
    let corpus = [
        "the how", "better then ", "It is better then ", "/** {@link */", "/** See {@link Foo", ">", "> ", "\\begin{code}\n>",
        "First. one two three four five six seven eight nine ten eleven twelve thirteen fourteen fifteen sixteen seventeen eighteen nineteen twenty twenty-one two three four five six seven eight nine thirty one two three four five six seven eight nine forty one two\n",
        "#let", "#let x", "#set text(lang:", "#f(a\nb $x$ c", "#let x = _(1)", "#{_()}", "[d.I", "//go:x\n//\n", "//go:generate\n//", "[[||]]", "See [[|alias|extra]]", "\\[[target|alias|extra]]", "[[a|[b](x)|c]]", "![[b c|]]b c[- ", "[[a|]]b c d", " ```\n\tx", "$$$$x", "You could of \ncourse do it.", "He should of\n course.", "See e.g.", "e.g.", "1e999$", "0x", "[a-", "a@", "http://", "x:", "\"", "'", "’s",
    ];
    // (w25) + line-ending and code-point families no witness had: lone CR, CRLF, BOM, fullwidth, stacked combining marks
    let corpus: Vec<&str> = corpus.iter().copied().chain(textgen::LEXER_CORNERS.iter().copied()).chain(W25_EXTRA.iter().copied()).collect();
    for id in &ids {
        for (k, c) in corpus.iter().enumerate() {
            push(id, c.to_string(), k, &mut jobs);
            push(id, frontends::embed(id, c, k), k + 1, &mut jobs);
        }
    }
    // 1b. small scope, exhaustive: every comment block of ≤ 3 lines over directive / empty /
    //     marker-only / prose lines (Go: `//go:` directives with and without trailing blanks and
    //     comment characters; the same skeletons on the other `//` languages)
    const LINES: &[&str] = &["//go:generate stringer -type=Pill", "//go:x ", "//go:build linux\t", "//go:x --", "//go:x //", "//", "// ", "//-", "//\t", "// Pill is a kind of medicine.", "package demo"];
    for id in ["go", "rust", "javascript", "c"] {
        if !ids.iter().any(|i| i == id) {
            continue;
        }
        let depth = if id == "go" { 3 } else { 2 };
        let mut level: Vec<String> = vec![String::new()];
        let mut k = 0usize;
        for _ in 0..depth {
            let mut next = vec![];
            for pre in &level {
                for l in LINES {
                    let t = format!("{}{}\n", pre, l);
                    push(id, t.clone(), k, &mut jobs);
                    k += 1;
                    next.push(t);
                }
            }
            level = next;
        }
    }
    let n_corpus = jobs.len();
    // 2. structured + malformed, embedded in language-appropriate syntax
    let per_front = if ctx.tier == Tier::Thorough { 60 } else { 10 };
    for id in &ids {
        if frontends::parser_for(id, false).is_none() {
            sess.monitor(&format!("frontend-known:{}", id), false);
            continue;
        }
        for j in 0..per_front {
            let prose = { let p = textgen::prose(&mut rng); if rng.chance(2, 3) { textgen::mutate(&mut rng, &p) } else { p } };
            let mut text = if rng.chance(1, 6) { textgen::malformed(&mut rng, 80) } else { frontends::embed(id, &prose, j) };
            if rng.chance(1, 3) {
                text = textgen::mutate(&mut rng, &text);
            }
            push(id, text, j, &mut jobs);
        }
    }
    // fixtures of the repository (long, realistic files), boundary prefixes only
    for (ext, content) in crate::corpus::fixtures().iter() {
        let id = match ext.as_str() {
            "md" => "markdown", "rs" => "rust", "js" => "javascript", "ts" => "typescript", "tsx" => "typescriptreact", "jsx" => "javascriptreact",
            "c" | "h" => "c", "cpp" => "cpp", "cs" => "csharp", "go" => "go", "java" => "java", "lua" => "lua", "py" => "python", "rb" => "ruby",
            "sh" => "shellscript", "swift" => "swift", "toml" => "toml", "nix" => "nix", "php" => "php", "dart" => "dart", "scala" => "scala",
            "hs" => "haskell", "cmake" => "cmake", "html" => "html", "typ" => "typst", "lhs" => "lhaskell", _ => "plaintext",
        };
        if content.chars().count() < (if ctx.tier == Tier::Thorough { 6000 } else { 1500 }) {
            push(id, content.clone(), jobs.len(), &mut jobs);
        }
    }
    let prefs: Vec<Vec<String>> = jobs.iter().map(|j| prefixes(&j.text, &mut rng)).collect();
    sess.add("frontends", ids.len() as u64);
    let results = par_map(jobs.len(), 16, |i| run_unit(&jobs[i], &prefs[i]));
    let mut slowest = 0u128;
    for (i, r) in results.into_iter().enumerate() {
        for _ in 0..r.docs {
            sess.o();
        }
        sess.count(&format!("front:{}", jobs[i].id));
        sess.count(&format!("cfg:{}", jobs[i].cfg));
        sess.count(if i < n_corpus { "origin:corpus" } else { "origin:generated" });
        sess.add("documents", r.docs as u64);
        slowest = slowest.max(r.slow_ms);
        if r.docs > 20 {
            sess.nontrivial(&format!("{}|{}", jobs[i].name(), jobs[i].text));
        }
        if i % 211 == 0 {
            sess.sample(json!({"frontend": jobs[i].name(), "text": trunc(&jobs[i].text, 160), "prefixes": r.docs}));
        }
        for (c, d, inp) in r.fails {
            sess.fail(&c, d, inp, None);
        }
    }
    // ---- growth -------------------------------------------------------------------------------
    let base = if ctx.tier == Tier::Thorough { 3000 } else { 1500 };
    let families: Vec<(&str, Box<dyn Fn(usize) -> String>)> = vec![
        ("one long word", Box::new(|n| "a".repeat(n))),
        ("digits", Box::new(|n| "7".repeat(n))),
        ("1x1x…", Box::new(|n| "1x".repeat(n / 2))),
        ("a.b.c.…", Box::new(|n| "a.".repeat(n / 2))),
        ("@-runs", Box::new(|n| "a@".repeat(n / 2))),
        (":-runs", Box::new(|n| "a:".repeat(n / 2))),
        ("numbers then periods", Box::new(|n| "1. ".repeat(n / 3))),
        ("sentences", Box::new(|n| "This is an test of the the thing. ".repeat(n / 34))),
        ("quotes", Box::new(|n| "\"a\" ".repeat(n / 4))),
        ("one unterminated sentence", Box::new(|n| "word ".repeat(n / 5))),
    ];
    let mut growth_rows = vec![];
    for (name, make) in &families {
        let (k, pts) = growth(name, make.as_ref(), base);
        sess.o();
        growth_rows.push(json!({"family": name, "exponent": (k * 100.0).round() / 100.0, "points": pts.iter().map(|(n, t)| json!([n, (t * 1e4).round() / 1e4])).collect::<Vec<_>>()}));
        if k > 3.2 {
            sess.fail("superpolynomial-growth", format!("family `{}`: time grows like n^{:.2} between 2n and 8n", name, k), json!({"family": name, "points": pts.iter().map(|(n, t)| json!([n, t])).collect::<Vec<_>>()}), None);
        }
    }
    // ---- (w25) growth through Markdown / comment front-ends; the other call sites ---------------
    growth_rows.extend(w25_growth(&mut sess, ctx));
    // (the command line is built with cargo, which needs the real HOME: before `set_home`)
    w25_cli_stream(&mut sess, ctx, None);
    w25_wasm_stream(&mut sess, ctx, &mut rng, None);
    w25_server_stream(&mut sess, ctx, &mut rng, None);
    sess.finish(
        &(crate::c01_pattern::RULE.to_string() + " || " + crate::leaves::RULE + " || " + crate::prules::RULE + " || " + crate::rules2::RULE + " || " + crate::mrules::RULE + " || O: the same over MergedDictionary[curated, user] on plain / Markdown texts with words of 245–275, 505–520, 1000–4096 letters || O: Document::new + LintGroup::lint (curated default / all rules on / a fixed half of the rules; 4 dialects; long-lived per-thread groups) on every language id of the server's table (also wrapped in CollapseIdentifiers / IsolateEnglish), for every prefix (every character for texts ≤200 chars, token boundaries ±1 beyond; some with trailing whitespace) of: the corpus of past crash witnesses, rule-test sentences embedded in language-appropriate syntax and mutated, random code points, and the repo's fixtures. A panic or a watchdog timeout is a failure; the class is the panic's source location. Growth: parse+lint time at n,2n,4n,8n for 10 pathological families (plain) and 6 through the Markdown parser and the Rust / JavaScript comment front-ends; exponent > 3.2 fails. At the other call sites: (server) one session of the real harper-ls per language id (default / every rule on / isolateEnglish / British + IgnoreLinkTitle + null and unknown rule keys): didOpen, then didChange for the witnesses, embedded witnesses, generated and malformed texts and one text typed in steps, with code-action requests in between — after every text the server is idle and answers; (wasm) harper_wasm::Linter, four dialects, default and every rule on, one long-lived instance each: lint(Plain), lint(Markdown), is_likely_english, isolate_english on witnesses, lexer corners, generated texts and every prefix of two texts; (cli) the real harper-cli lint / parse / spans on witness files with the extensions md, lhs, typ, rs, js, java, go, py, c — a panic (exit 101 / signal) or no end within 120 s fails. Non-trivial = a unit with > 20 prefixes; distinct by (front-end, text)."),
        false,
        json!({"growth": growth_rows, "slowest_unit_ms": slowest as u64, "language_ids": ids}),
    );
}
