//! ad-hoc probe: print the tokens of a file under a front-end
use crate::frontends;
use crate::tokfmt::*;
use harper_core::{Document, FstDictionary};
pub fn run(args: &[String]) {
    let id = &args[0];
    let text = std::fs::read_to_string(&args[1]).unwrap();
    let parser = frontends::parser_for(id, false).unwrap();
    let src: Vec<char> = text.chars().collect();
    use harper_core::parsers::Parser;
    let toks = parser.parse(&src);
    println!("parser: {}", toks_show(&toks));
    let doc = Document::new(&text, &parser, &FstDictionary::curated());
    println!("doc:    {}", toks_show(doc.get_tokens()));
}
