//! C13 — `remove_overlaps` against the Lean model, and the property's three clauses on the
//! real output.
use crate::common::*;
use harper_core::linting::{Lint, LintGroup, Linter};
use harper_core::{Dialect, Document, FstDictionary, Span, remove_overlaps};
use serde_json::json;

fn mk(spans: &[(usize, usize)]) -> Vec<Lint> {
    spans
        .iter()
        .enumerate()
        .map(|(i, (s, e))| Lint { span: Span::new(*s, *e), message: i.to_string(), ..Default::default() })
        .collect()
}

fn show(ls: &[Lint]) -> String {
    ls.iter().map(|l| format!("{}:{}:{}", l.span.start, l.span.end, l.message)).collect::<Vec<_>>().join(" ")
}

/// Evaluate one list: K line + the property's clauses on the real output.
fn eval(sess: &mut Session, spans: &[(usize, usize)], origin: &str) {
    let input = mk(spans);
    let op = format!("ro {}", show(&input));
    let mut out = input.clone();
    let r = guarded(|| {
        remove_overlaps(&mut out);
    });
    let imp = match r {
        Ok(()) => format!("ok {}", show(&out)).trim_end().to_string(),
        Err(_) => "panic".to_string(),
    };
    let case = sess.k(&op, &imp);
    sess.count(&format!("origin:{}", origin));
    sess.count(&format!("len:{}", spans.len().min(9)));
    if r.is_err() {
        sess.fail("panic", "remove_overlaps panicked".into(), json!({"spans": spans}), Some(case));
        return;
    }
    // (1) sub-list of the input (as a multiset with identity): every kept lint is an input lint, once.
    let mut seen = std::collections::HashSet::new();
    for l in &out {
        let idx: usize = l.message.parse().unwrap_or(usize::MAX);
        let genuine = idx < input.len() && input[idx] == *l && seen.insert(idx);
        if !genuine {
            sess.fail("invented", format!("output lint {:?} is not an input lint", l.span), json!({"spans": spans}), Some(case));
            return;
        }
    }
    // (2) no two kept lints cover a common character
    for a in 0..out.len() {
        for b in a + 1..out.len() {
            if out[a].span.overlaps_with(out[b].span) {
                sess.fail("overlap", format!("kept {:?} and {:?} overlap", out[a].span, out[b].span), json!({"spans": spans}), Some(case));
                return;
            }
        }
    }
    // (3) every dropped lint starts inside (or at the start of) a kept lint
    let mut dropped = 0;
    for (i, l) in input.iter().enumerate() {
        if seen.contains(&i) {
            continue;
        }
        dropped += 1;
        let ok = out.iter().any(|k| k.span.start <= l.span.start && l.span.start < k.span.end);
        if !ok {
            sess.fail("dropped-outside", format!("dropped {:?} does not start inside a kept lint", l.span), json!({"spans": spans}), Some(case));
            return;
        }
    }
    if dropped > 0 {
        sess.nontrivial(&op);
        sess.count("with-drops");
    }
}

pub fn run(ctx: &Ctx) {
    let mut sess = Session::new(ctx);
    let mut rng = Rng::new(ctx.seed);
    if let Some(v) = replay_input(ctx) {
        let spans: Vec<(usize, usize)> = serde_json::from_value(v["spans"].clone()).unwrap_or_default();
        eval(&mut sess, &spans, "replay");
        if let Some(t) = v["js_text"].as_str() {
            use harper_wasm::{Dialect as WDialect, Language, Linter as WLinter};
            let mut js = WLinter::new(WDialect::American);
            if let Ok(out) = guarded(|| js.lint(t.to_string(), Language::Plain)) {
                'outer: for a in 0..out.len() {
                    for b in a + 1..out.len() {
                        let (x, y) = (out[a].span(), out[b].span());
                        if x.start < y.end && y.start < x.end {
                            sess.fail("js-overlap", format!("harper_wasm::Linter::lint reports [{},{}) and [{},{}), which share a character", x.start, x.end, y.start, y.end), v.clone(), None);
                            break 'outer;
                        }
                    }
                }
            }
        }
        sess.nontrivial("replay-a");
        sess.nontrivial("replay-b");
        sess.finish("replay of one recorded input", false, json!({}));
        return;
    }
    // 1. corpus
    for c in [
        vec![(0, 5), (3, 6), (5, 5), (5, 9), (2, 2)],
        vec![(0, 0), (0, 0)],
        vec![(1, 3), (1, 3)],
        vec![(0, 4), (4, 4), (4, 8)],
        vec![(2, 6), (0, 3)],
    ] {
        eval(&mut sess, &c, "corpus");
    }
    // 2. exhaustive small scope: all lists of ≤ 4 spans with endpoints ≤ 4 (quick: endpoints ≤ 3)
    let maxe = if ctx.tier == Tier::Thorough { 4 } else { 3 };
    let mut all = vec![];
    for s in 0..=maxe {
        for e in s..=maxe {
            all.push((s, e));
        }
    }
    let n = all.len();
    for len in 0..=4usize {
        let total = n.pow(len as u32);
        for code in 0..total {
            let mut c = code;
            let mut l = Vec::with_capacity(len);
            for _ in 0..len {
                l.push(all[c % n]);
                c /= n;
            }
            eval(&mut sess, &l, "exhaustive");
        }
    }
    // 3. random larger lists with nested / touching / equal / zero-width spans
    let nrand = if ctx.tier == Tier::Thorough { 60000 } else { 8000 };
    for _ in 0..nrand {
        let len = rng.range(2, 24);
        let width = rng.range(4, 40);
        let mut l = vec![];
        for _ in 0..len {
            let s = rng.below(width);
            let e = match rng.below(4) {
                0 => s,
                1 => s + rng.below(3),
                _ => s + rng.below(width - s + 1),
            };
            l.push((s, e));
            if rng.chance(1, 6) {
                l.push((s, e)); // duplicates exercise stability
            }
        }
        eval(&mut sess, &l, "random");
    }
    // 4. real lint lists (all rules on) from the rule tests' own sentences
    let dict = FstDictionary::curated();
    let mut group = LintGroup::new_curated(dict.clone(), Dialect::American);
    group.config.fill_with_curated();
    let sents = crate::corpus::sentences();
    let nreal = if ctx.tier == Tier::Thorough { sents.len() } else { sents.len().min(400) };
    for i in 0..nreal {
        let mut text = sents[rng.below(sents.len())].clone();
        if rng.chance(1, 2) {
            text.push(' ');
            text.push_str(&sents[rng.below(sents.len())]);
        }
        let doc = Document::new_plain_english(&text, &dict);
        let lints = match guarded(|| group.lint(&doc)) {
            Ok(l) => l,
            Err(_) => continue,
        };
        let spans: Vec<(usize, usize)> = lints.iter().map(|l| (l.span.start, l.span.end)).collect();
        if i < 3 {
            sess.sample(json!({"text": text, "spans": spans}));
        }
        eval(&mut sess, &spans, "real-lints");
    }
    // 5. the JS-facing API (`harper_wasm::Linter::lint`, built natively): what it reports must be
    //    pairwise disjoint AND be exactly the model's remove_overlaps of the group's raw lints.
    //    Texts with NESTED lints: a sentence of more than 40 words (LongSentences covers it) with
    //    two or more unknown words and repeated words inside.
    {
        use harper_wasm::{Dialect as WDialect, Language, Linter as WLinter};
        let mut js = WLinter::new(WDialect::American);
        let typos = ["gardn", "mornng", "teh", "recieve", "the the", "an apple an apple", "3 apples"];
        let njs = if ctx.tier == Tier::Thorough { 1500 } else { 150 };
        for i in 0..njs {
            let mut words: Vec<String> = vec![];
            while words.len() < 42 + rng.below(20) {
                let sn = sents[rng.below(sents.len())].trim_end_matches(['.', '!', '?']).to_string();
                words.extend(sn.split(' ').map(|w| w.to_string()));
                words.push("and".into());
            }
            for _ in 0..rng.range(2, 4) {
                let at = rng.below(words.len());
                words.insert(at, rng.pick(&typos).to_string());
            }
            let text = format!("{}.", words.join(" "));
            let doc = Document::new_plain_english(&text, &dict);
            let Ok(raw) = guarded(|| group.lint(&doc)) else { continue };
            let Ok(out) = guarded(|| js.lint(text.clone(), Language::Plain)) else {
                sess.count("js:lint-panicked(C01)");
                continue;
            };
            let spans: Vec<(usize, usize)> = raw.iter().map(|l| (l.span.start, l.span.end)).collect();
            let op = format!("ro {}", show(&mk(&spans)));
            // name every reported lint by the index of the raw lint it is (span and message)
            let mut used = vec![false; raw.len()];
            let mut named = vec![];
            let mut invented = None;
            for l in &out {
                let sp = l.span();
                let m = l.message();
                match (0..raw.len()).find(|&k| !used[k] && raw[k].span.start == sp.start && raw[k].span.end == sp.end && raw[k].message == m) {
                    Some(k) => {
                        used[k] = true;
                        named.push(format!("{}:{}:{}", sp.start, sp.end, k));
                    }
                    None => invented = Some((sp.start, sp.end)),
                }
            }
            let case = sess.k(&op, format!("ok {}", named.join(" ")).trim_end());
            sess.count("origin:js-api");
            let nested = spans.iter().any(|a| spans.iter().filter(|b| *b != a && a.0 <= b.0 && b.1 <= a.1).count() >= 2);
            sess.count(if nested { "js:two-lints-nested-in-one" } else { "js:no-double-nesting" });
            if i < 2 {
                sess.sample(json!({"js_text": text, "raw_spans": spans}));
            }
            if let Some(sp) = invented {
                sess.fail("js-invented", format!("Linter::lint reports {:?}, which is not a lint of the group", sp), json!({"js_text": text, "spans": spans}), Some(case));
            }
            'outer: for a in 0..out.len() {
                for b in a + 1..out.len() {
                    let (x, y) = (out[a].span(), out[b].span());
                    if x.start < y.end && y.start < x.end {
                        sess.fail("js-overlap", format!("harper_wasm::Linter::lint reports [{},{}) and [{},{}), which share a character", x.start, x.end, y.start, y.end), json!({"js_text": text, "spans": spans}), Some(case));
                        break 'outer;
                    }
                }
            }
            if nested {
                sess.nontrivial(&format!("js|{}", text));
            }
        }
    }
    // 6. the CLI: the real `harper-cli` executable (built from /repo into the harness's own target
    //    directory) on Markdown files, with no / one / two `--only-lint-with` rules; its report must
    //    carry each message exactly as many times as `remove_overlaps` of the same group's lints
    //    does (the report is ariadne's rendering: messages are counted, spans are not parsed)
    {
        let target = std::path::PathBuf::from(env!("CARGO_MANIFEST_DIR")).join("target").join("lsbin");
        let built = std::process::Command::new("cargo")
            .args(["build", "--offline", "--locked", "-p", "harper-cli", "--manifest-path", "/repo/Cargo.toml", "--target-dir"])
            .arg(&target)
            .env("CARGO_NET_OFFLINE", "true")
            .stdout(std::process::Stdio::null())
            .stderr(std::process::Stdio::null())
            .status()
            .map(|s| s.success())
            .unwrap_or(false);
        sess.count(if built { "cli:built" } else { "cli:not-built(stream skipped)" });
        if built {
            let bin = target.join("debug").join("harper-cli");
            let dir = ctx.out.join("c13-cli");
            let _ = std::fs::create_dir_all(&dir);
            let texts = [
                "It was the the the end.\n",
                "We saw the the the the cat and an an an apple.\n",
                "This is is is is fine, and that that that too.\n",
                "There is teh teh teh word here.\n",
            ];
            let rule_sets: [&[&str]; 4] = [&[], &["RepeatedWords"], &["RepeatedWords", "SpellCheck"], &["AnA"]];
            for (ti, text) in texts.iter().enumerate() {
                for rules in rule_sets {
                    let file = dir.join(format!("input{}.md", ti));
                    let _ = std::fs::write(&file, text);
                    // what the same group reports, overlaps removed
                    let doc = Document::new_markdown_default(text, &dict);
                    let mut g = LintGroup::new_curated(dict.clone(), Dialect::American);
                    if !rules.is_empty() {
                        g.set_all_rules_to(Some(false));
                        for r in rules {
                            g.config.set_rule_enabled(*r, true);
                        }
                    }
                    let Ok(mut want) = guarded(|| g.lint(&doc)) else { continue };
                    let raw_n = want.len();
                    remove_overlaps(&mut want);
                    let mut cmd = std::process::Command::new(&bin);
                    cmd.arg("lint").arg(&file).arg("--user-dict-path").arg(dir.join("no_user_dict.txt")).arg("--file-dict-path").arg(dir.join("no_file_dicts"));
                    for r in rules {
                        cmd.arg("--only-lint-with").arg(r);
                    }
                    let Ok(out) = cmd.output() else { continue };
                    let report = format!("{}{}", String::from_utf8_lossy(&out.stdout), String::from_utf8_lossy(&out.stderr));
                    sess.o();
                    sess.count("origin:cli");
                    let mut msgs: Vec<String> = want.iter().map(|l| l.message.clone()).collect();
                    msgs.sort();
                    msgs.dedup();
                    for m in msgs {
                        let expect = want.iter().filter(|l| l.message == m).count();
                        let got = report.matches(m.as_str()).count();
                        if got != expect {
                            sess.fail("cli-overlap", format!("harper-cli lint {:?} --only-lint-with {:?}: the report carries {:?} {} time(s), remove_overlaps of the group's {} lints keeps {} such lint(s)", text, rules, m, got, raw_n, expect), json!({"cli_text": text, "rules": rules, "spans": []}), None);
                        }
                    }
                    if raw_n > want.len() {
                        sess.nontrivial(&format!("cli|{}|{:?}", text, rules));
                    }
                }
            }
        }
    }
    //    and a text search that the CLI still hands its lints to `remove_overlaps` before reporting them
    {
        let main = std::fs::read_to_string("/repo/harper-cli/src/main.rs").unwrap_or_default();
        let lint_at = main.find("linter.lint(&doc)");
        let ro_at = main.find("remove_overlaps(&mut lints);");
        let report_at = main.find("Report::build");
        let ok = matches!((lint_at, ro_at, report_at), (Some(a), Some(b), Some(c)) if a < b && b < c);
        sess.monitor("harper-cli/src/main.rs: linter.lint(&doc) … remove_overlaps(&mut lints) … Report::build, in this order (text search)", ok);
    }
    sess.finish(
        "corpus; all lists of ≤4 spans with endpoints ≤3 (quick) / ≤4 (thorough), exhaustively; random lists of 2–24 spans (nested, touching, equal, zero-width, duplicated); span lists of real lints (all rules on) of rule-test sentences; harper_wasm::Linter::lint on sentences of > 40 words with several unknown / repeated words inside (disjoint, and = the model's remove_overlaps of the group's raw lints); the real harper-cli executable on texts with thrice-repeated words under 0 / 1 / 2 selected rules (message counts = remove_overlaps of the group's lints). Non-trivial = at least one lint dropped; distinct by the op line.",
        true,
        json!({"exhaustive_scope": format!("lists of ≤4 spans, endpoints ≤{}", maxe)}),
    );
}
