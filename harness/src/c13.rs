//! C13 — `remove_overlaps` against the Lean model, and the property's three clauses on the
//! real output.
use crate::common::*;
use harper_core::linting::{Lint, LintGroup, Linter};
use harper_core::{Dialect, Document, FstDictionary, Span, remove_overlaps};
use serde_json::json;

fn mk(spans: &[(usize, usize)]) -> Vec<Lint> {
    spans
        .iter()
        .enumerate()
        .map(|(i, (s, e))| Lint { span: Span::new(*s, *e), message: i.to_string(), ..Default::default() })
        .collect()
}

fn show(ls: &[Lint]) -> String {
    ls.iter().map(|l| format!("{}:{}:{}", l.span.start, l.span.end, l.message)).collect::<Vec<_>>().join(" ")
}

/// Evaluate one list: K line + the property's clauses on the real output.
fn eval(sess: &mut Session, spans: &[(usize, usize)], origin: &str) {
    let input = mk(spans);
    let op = format!("ro {}", show(&input));
    let mut out = input.clone();
    let r = guarded(|| {
        remove_overlaps(&mut out);
    });
    let imp = match r {
        Ok(()) => format!("ok {}", show(&out)).trim_end().to_string(),
        Err(_) => "panic".to_string(),
    };
    let case = sess.k(&op, &imp);
    sess.count(&format!("origin:{}", origin));
    sess.count(&format!("len:{}", spans.len().min(9)));
    if r.is_err() {
        sess.fail("panic", "remove_overlaps panicked".into(), json!({"spans": spans}), Some(case));
        return;
    }
    // (1) sub-list of the input (as a multiset with identity): every kept lint is an input lint, once.
    let mut seen = std::collections::HashSet::new();
    for l in &out {
        let idx: usize = l.message.parse().unwrap_or(usize::MAX);
        let genuine = idx < input.len() && input[idx] == *l && seen.insert(idx);
        if !genuine {
            sess.fail("invented", format!("output lint {:?} is not an input lint", l.span), json!({"spans": spans}), Some(case));
            return;
        }
    }
    // (2) no two kept lints cover a common character
    for a in 0..out.len() {
        for b in a + 1..out.len() {
            if out[a].span.overlaps_with(out[b].span) {
                sess.fail("overlap", format!("kept {:?} and {:?} overlap", out[a].span, out[b].span), json!({"spans": spans}), Some(case));
                return;
            }
        }
    }
    // (3) every dropped lint starts inside (or at the start of) a kept lint
    let mut dropped = 0;
    for (i, l) in input.iter().enumerate() {
        if seen.contains(&i) {
            continue;
        }
        dropped += 1;
        let ok = out.iter().any(|k| k.span.start <= l.span.start && l.span.start < k.span.end);
        if !ok {
            sess.fail("dropped-outside", format!("dropped {:?} does not start inside a kept lint", l.span), json!({"spans": spans}), Some(case));
            return;
        }
    }
    if dropped > 0 {
        sess.nontrivial(&op);
        sess.count("with-drops");
    }
    // Props/C13c (removeOverlaps_idempotent, removeOverlaps_spans_perm_invariant) observed on the real
    // function. Counted, not judged: the property does not ask for either, so a change that loses one
    // of them while keeping the three clauses above is no violation (it breaks K, which names it).
    let mut again = out.clone();
    let mut rev: Vec<Lint> = input.iter().rev().cloned().collect();
    if guarded(|| {
        remove_overlaps(&mut again);
        remove_overlaps(&mut rev);
    })
    .is_ok()
    {
        sess.count(if again == out { "c13c:idempotent" } else { "c13c:NOT-idempotent" });
        let same = rev.len() == out.len() && rev.iter().zip(out.iter()).all(|(a, b)| a.span == b.span);
        sess.count(if same { "c13c:spans-order-independent" } else { "c13c:spans-ORDER-DEPENDENT" });
    }
}

pub fn run(ctx: &Ctx) {
    let mut sess = Session::new(ctx);
    let mut rng = Rng::new(ctx.seed);
    if let Some(v) = replay_input(ctx) {
        let spans: Vec<(usize, usize)> = serde_json::from_value(v["spans"].clone()).unwrap_or_default();
        eval(&mut sess, &spans, "replay");
        if let Some(t) = v["js_text"].as_str() {
            use harper_wasm::{Dialect as WDialect, Language, Linter as WLinter};
            let mut js = WLinter::new(WDialect::American);
            if let Ok(out) = guarded(|| js.lint(t.to_string(), Language::Plain)) {
                'outer: for a in 0..out.len() {
                    for b in a + 1..out.len() {
                        let (x, y) = (out[a].span(), out[b].span());
                        if x.start < y.end && y.start < x.end {
                            sess.fail("js-overlap", format!("harper_wasm::Linter::lint reports [{},{}) and [{},{}), which share a character", x.start, x.end, y.start, y.end), v.clone(), None);
                            break 'outer;
                        }
                    }
                }
            }
        }
        if let Some(t) = v["w25_js_text"].as_str() {
            let di = v["setup"].as_u64().unwrap_or(0) as usize;
            let (mut js, mut g) = (w25_js(di), w25_group(di));
            w25_eval_js(&mut sess, &mut js, &mut g, di, t, v["markdown"].as_bool().unwrap_or(false));
        }
        sess.nontrivial("replay-a");
        sess.nontrivial("replay-b");
        sess.finish("replay of one recorded input", false, json!({}));
        return;
    }
    // 1. corpus
    for c in [
        vec![(0, 5), (3, 6), (5, 5), (5, 9), (2, 2)],
        vec![(0, 0), (0, 0)],
        vec![(1, 3), (1, 3)],
        vec![(0, 4), (4, 4), (4, 8)],
        vec![(2, 6), (0, 3)],
    ] {
        eval(&mut sess, &c, "corpus");
    }
    // 2. exhaustive small scope: all lists of ≤ 4 spans with endpoints ≤ 4 (quick: endpoints ≤ 3)
    let maxe = if ctx.tier == Tier::Thorough { 4 } else { 3 };
    let mut all = vec![];
    for s in 0..=maxe {
        for e in s..=maxe {
            all.push((s, e));
        }
    }
    let n = all.len();
    for len in 0..=4usize {
        let total = n.pow(len as u32);
        for code in 0..total {
            let mut c = code;
            let mut l = Vec::with_capacity(len);
            for _ in 0..len {
                l.push(all[c % n]);
                c /= n;
            }
            eval(&mut sess, &l, "exhaustive");
        }
    }
    // 3. random larger lists with nested / touching / equal / zero-width spans
    let nrand = if ctx.tier == Tier::Thorough { 60000 } else { 8000 };
    for _ in 0..nrand {
        let len = rng.range(2, 24);
        let width = rng.range(4, 40);
        let mut l = vec![];
        for _ in 0..len {
            let s = rng.below(width);
            let e = match rng.below(4) {
                0 => s,
                1 => s + rng.below(3),
                _ => s + rng.below(width - s + 1),
            };
            l.push((s, e));
            if rng.chance(1, 6) {
                l.push((s, e)); // duplicates exercise stability
            }
        }
        eval(&mut sess, &l, "random");
    }
    // 4. real lint lists (all rules on) from the rule tests' own sentences
    let dict = FstDictionary::curated();
    let mut group = LintGroup::new_curated(dict.clone(), Dialect::American);
    group.config.fill_with_curated();
    let sents = crate::corpus::sentences();
    let nreal = if ctx.tier == Tier::Thorough { sents.len() } else { sents.len().min(400) };
    for i in 0..nreal {
        let mut text = sents[rng.below(sents.len())].clone();
        if rng.chance(1, 2) {
            text.push(' ');
            text.push_str(&sents[rng.below(sents.len())]);
        }
        let doc = Document::new_plain_english(&text, &dict);
        let lints = match guarded(|| group.lint(&doc)) {
            Ok(l) => l,
            Err(_) => continue,
        };
        let spans: Vec<(usize, usize)> = lints.iter().map(|l| (l.span.start, l.span.end)).collect();
        if i < 3 {
            sess.sample(json!({"text": text, "spans": spans}));
        }
        eval(&mut sess, &spans, "real-lints");
    }
    // 5. the JS-facing API (`harper_wasm::Linter::lint`, built natively): what it reports must be
    //    pairwise disjoint AND be exactly the model's remove_overlaps of the group's raw lints.
    //    Texts with NESTED lints: a sentence of more than 40 words (LongSentences covers it) with
    //    two or more unknown words and repeated words inside.
    {
        use harper_wasm::{Dialect as WDialect, Language, Linter as WLinter};
        let mut js = WLinter::new(WDialect::American);
        let typos = ["gardn", "mornng", "teh", "recieve", "the the", "an apple an apple", "3 apples"];
        let njs = if ctx.tier == Tier::Thorough { 1500 } else { 150 };
        for i in 0..njs {
            let mut words: Vec<String> = vec![];
            while words.len() < 42 + rng.below(20) {
                let sn = sents[rng.below(sents.len())].trim_end_matches(['.', '!', '?']).to_string();
                words.extend(sn.split(' ').map(|w| w.to_string()));
                words.push("and".into());
            }
            for _ in 0..rng.range(2, 4) {
                let at = rng.below(words.len());
                words.insert(at, rng.pick(&typos).to_string());
            }
            let text = format!("{}.", words.join(" "));
            let doc = Document::new_plain_english(&text, &dict);
            let Ok(raw) = guarded(|| group.lint(&doc)) else { continue };
            let Ok(out) = guarded(|| js.lint(text.clone(), Language::Plain)) else {
                sess.count("js:lint-panicked(C01)");
                continue;
            };
            let spans: Vec<(usize, usize)> = raw.iter().map(|l| (l.span.start, l.span.end)).collect();
            let op = format!("ro {}", show(&mk(&spans)));
            // name every reported lint by the index of the raw lint it is (span and message)
            let mut used = vec![false; raw.len()];
            let mut named = vec![];
            let mut invented = None;
            for l in &out {
                let sp = l.span();
                let m = l.message();
                match (0..raw.len()).find(|&k| !used[k] && raw[k].span.start == sp.start && raw[k].span.end == sp.end && raw[k].message == m) {
                    Some(k) => {
                        used[k] = true;
                        named.push(format!("{}:{}:{}", sp.start, sp.end, k));
                    }
                    None => invented = Some((sp.start, sp.end)),
                }
            }
            let case = sess.k(&op, format!("ok {}", named.join(" ")).trim_end());
            sess.count("origin:js-api");
            let nested = spans.iter().any(|a| spans.iter().filter(|b| *b != a && a.0 <= b.0 && b.1 <= a.1).count() >= 2);
            sess.count(if nested { "js:two-lints-nested-in-one" } else { "js:no-double-nesting" });
            if i < 2 {
                sess.sample(json!({"js_text": text, "raw_spans": spans}));
            }
            if let Some(sp) = invented {
                sess.fail("js-invented", format!("Linter::lint reports {:?}, which is not a lint of the group", sp), json!({"js_text": text, "spans": spans}), Some(case));
            }
            'outer: for a in 0..out.len() {
                for b in a + 1..out.len() {
                    let (x, y) = (out[a].span(), out[b].span());
                    if x.start < y.end && y.start < x.end {
                        sess.fail("js-overlap", format!("harper_wasm::Linter::lint reports [{},{}) and [{},{}), which share a character", x.start, x.end, y.start, y.end), json!({"js_text": text, "spans": spans}), Some(case));
                        break 'outer;
                    }
                }
            }
            if nested {
                sess.nontrivial(&format!("js|{}", text));
            }
        }
    }
    // 6. the CLI: the real `harper-cli` executable (built from /repo into the harness's own target
    //    directory) on Markdown files, with no / one / two `--only-lint-with` rules; its report must
    //    carry each message exactly as many times as `remove_overlaps` of the same group's lints
    //    does (the report is ariadne's rendering: messages are counted, spans are not parsed)
    {
        let target = std::path::PathBuf::from(env!("CARGO_MANIFEST_DIR")).join("target").join("lsbin");
        let built = std::process::Command::new("cargo")
            .args(["build", "--offline", "--locked", "-p", "harper-cli", "--manifest-path", "/repo/Cargo.toml", "--target-dir"])
            .arg(&target)
            .env("CARGO_NET_OFFLINE", "true")
            .stdout(std::process::Stdio::null())
            .stderr(std::process::Stdio::null())
            .status()
            .map(|s| s.success())
            .unwrap_or(false);
        sess.count(if built { "cli:built" } else { "cli:not-built(stream skipped)" });
        if built {
            let bin = target.join("debug").join("harper-cli");
            let dir = ctx.out.join("c13-cli");
            let _ = std::fs::create_dir_all(&dir);
            let texts = [
                "It was the the the end.\n",
                "We saw the the the the cat and an an an apple.\n",
                "This is is is is fine, and that that that too.\n",
                "There is teh teh teh word here.\n",
            ];
            let rule_sets: [&[&str]; 4] = [&[], &["RepeatedWords"], &["RepeatedWords", "SpellCheck"], &["AnA"]];
            for (ti, text) in texts.iter().enumerate() {
                for rules in rule_sets {
                    let file = dir.join(format!("input{}.md", ti));
                    let _ = std::fs::write(&file, text);
                    // what the same group reports, overlaps removed
                    let doc = Document::new_markdown_default(text, &dict);
                    let mut g = LintGroup::new_curated(dict.clone(), Dialect::American);
                    if !rules.is_empty() {
                        g.set_all_rules_to(Some(false));
                        for r in rules {
                            g.config.set_rule_enabled(*r, true);
                        }
                    }
                    let Ok(mut want) = guarded(|| g.lint(&doc)) else { continue };
                    let raw_n = want.len();
                    remove_overlaps(&mut want);
                    let mut cmd = std::process::Command::new(&bin);
                    cmd.arg("lint").arg(&file).arg("--user-dict-path").arg(dir.join("no_user_dict.txt")).arg("--file-dict-path").arg(dir.join("no_file_dicts"));
                    for r in rules {
                        cmd.arg("--only-lint-with").arg(r);
                    }
                    let Ok(out) = cmd.output() else { continue };
                    let report = format!("{}{}", String::from_utf8_lossy(&out.stdout), String::from_utf8_lossy(&out.stderr));
                    sess.o();
                    sess.count("origin:cli");
                    let mut msgs: Vec<String> = want.iter().map(|l| l.message.clone()).collect();
                    msgs.sort();
                    msgs.dedup();
                    for m in msgs {
                        let expect = want.iter().filter(|l| l.message == m).count();
                        let got = report.matches(m.as_str()).count();
                        if got != expect {
                            sess.fail("cli-overlap", format!("harper-cli lint {:?} --only-lint-with {:?}: the report carries {:?} {} time(s), remove_overlaps of the group's {} lints keeps {} such lint(s)", text, rules, m, got, raw_n, expect), json!({"cli_text": text, "rules": rules, "spans": []}), None);
                        }
                    }
                    if raw_n > want.len() {
                        sess.nontrivial(&format!("cli|{}|{:?}", text, rules));
                    }
                }
            }
        }
    }
    // w25: long lists, more configurations, the JS API as Markdown / per dialect + its fix-all clause, the CLI on other file types
    w25_run(&mut sess, ctx, &mut rng);
    //    and a text search that the CLI still hands its lints to `remove_overlaps` before reporting them
    {
        let main = std::fs::read_to_string("/repo/harper-cli/src/main.rs").unwrap_or_default();
        let lint_at = main.find("linter.lint(&doc)");
        let ro_at = main.find("remove_overlaps(&mut lints);");
        let report_at = main.find("Report::build");
        let ok = matches!((lint_at, ro_at, report_at), (Some(a), Some(b), Some(c)) if a < b && b < c);
        sess.monitor("harper-cli/src/main.rs: linter.lint(&doc) … remove_overlaps(&mut lints) … Report::build, in this order (text search)", ok);
    }
    sess.finish(
        "corpus; all lists of ≤4 spans with endpoints ≤3 (quick) / ≤4 (thorough), exhaustively; random lists of 2–24 spans (nested, touching, equal, zero-width, duplicated); span lists of real lints (all rules on) of rule-test sentences; harper_wasm::Linter::lint on sentences of > 40 words with several unknown / repeated words inside (disjoint, and = the model's remove_overlaps of the group's raw lints); the real harper-cli executable on texts with thrice-repeated words under 0 / 1 / 2 selected rules (message counts = remove_overlaps of the group's lints); w25: shuffled lists of 60–600 spans (nested chains, touching staircases with zero-width spans at the joints, many equal spans, one span over many disjoint ones, random) at offsets 0 / 2^31 / 2^40 / usize::MAX/4; span lists of real lints of Markdown and plain documents with every rule on in the four dialects (one with user words); harper_wasm::Linter::lint as Markdown and plain in four set-ups (dialects, import_words, every rule true) on texts with nested lints: sub-list of the group's lints = the model's remove_overlaps, pairwise disjoint, and one suggestion per reported lint applied by apply_suggestion from the last to the first = all substituted at once; the harper-cli executable on generated .md / .typ / .rs / .py / .lhs files with --dialect. Non-trivial = at least one lint dropped; distinct by the op line.",
        true,
        json!({"exhaustive_scope": format!("lists of ≤4 spans, endpoints ≤{}", maxe)}),
    );
}

// =============================================================================================
// w25 additions — more list families and configurations for `eval`, the JS API as Markdown / in
// every dialect / with imported words, the statement's last clause ("can all be fixed in one
// pass, back to front, without the edits interfering") on what the JS API reports, and the CLI
// on generated files of other languages and dialects.
// =============================================================================================

/// long lists and far-away coordinates (the sort key is `(start, !0 - end)`)
fn w25_long_lists(sess: &mut Session, rng: &mut Rng, n: usize) {
    for i in 0..n {
        let len = rng.range(60, 300);
        let base = match i % 4 {
            0 => 0usize,
            1 => 1usize << 31,
            2 => 1usize << 40,
            _ => usize::MAX / 4,
        };
        let mut l: Vec<(usize, usize)> = vec![];
        match i % 5 {
            // a chain of spans each nested in the one before
            0 => {
                for k in 0..len {
                    l.push((base + k, base + 2 * len - k));
                }
            }
            // a staircase of touching spans with zero-width spans at every joint
            1 => {
                for k in 0..len {
                    l.push((base + 3 * k, base + 3 * k + 3));
                    l.push((base + 3 * k + 3, base + 3 * k + 3));
                }
            }
            // many equal spans
            2 => {
                for _ in 0..len {
                    l.push((base + 5, base + 9));
                }
                l.push((base + 9, base + 12));
            }
            // one long span over many disjoint short ones (the C13r3 shape), then a tail
            3 => {
                l.push((base, base + 4 * len));
                for k in 0..len {
                    l.push((base + 4 * k + 1, base + 4 * k + 3));
                }
                l.push((base + 4 * len, base + 4 * len + 2));
            }
            // random
            _ => {
                let width = rng.range(20, 600);
                for _ in 0..len {
                    let s = rng.below(width);
                    let e = if rng.chance(1, 4) { s } else { s + rng.below((width - s).min(30) + 1) };
                    l.push((base + s, base + e));
                }
            }
        }
        // shuffled: the function sorts, the input order must not matter for the clauses
        for k in (1..l.len()).rev() {
            let j = rng.below(k + 1);
            l.swap(k, j);
        }
        eval(sess, &l, "long-list");
    }
}

const W25_SETUPS: [&str; 4] = ["American/default", "British/import_words", "Australian/default", "Canadian/every-rule-true"];
const W25_WORDS: &[&str] = &["gardn", "Mornng", "o'clockish", "naïve"];

fn w25_core_dialect(di: usize) -> Dialect {
    [Dialect::American, Dialect::British, Dialect::Australian, Dialect::Canadian][di % 4]
}

fn w25_dict(di: usize) -> std::sync::Arc<harper_core::MergedDictionary> {
    let mut d = harper_core::MergedDictionary::new();
    d.add_dictionary(FstDictionary::curated());
    let mut user = harper_core::MutableDictionary::new();
    if di % 4 == 1 {
        user.extend_words(W25_WORDS.iter().map(|w| (w.chars().collect::<harper_core::CharString>(), harper_core::WordMetadata::default())));
    }
    d.add_dictionary(std::sync::Arc::new(user));
    std::sync::Arc::new(d)
}

/// the group whose raw lints the JS linter of setup `di` filters
fn w25_group(di: usize) -> LintGroup {
    let mut g = LintGroup::new_curated(w25_dict(di), w25_core_dialect(di));
    g.config.fill_with_curated();
    if di % 4 == 3 {
        g.set_all_rules_to(Some(true));
    }
    g
}

fn w25_js(di: usize) -> harper_wasm::Linter {
    use harper_wasm::{Dialect as WDialect, Linter as WLinter};
    let mut js = WLinter::new([WDialect::American, WDialect::British, WDialect::Australian, WDialect::Canadian][di % 4]);
    match di % 4 {
        1 => js.import_words(W25_WORDS.iter().map(|w| w.to_string()).collect()),
        3 => {
            if let Ok(serde_json::Value::Object(m)) = serde_json::from_str::<serde_json::Value>(&js.get_lint_descriptions_as_json()) {
                let all: serde_json::Map<String, serde_json::Value> = m.keys().map(|k| (k.clone(), serde_json::Value::Bool(true))).collect();
                let _ = js.set_lint_config_from_json(serde_json::Value::Object(all).to_string());
            }
        }
        _ => {}
    }
    js
}

/// One text through the JS API of setup `di`: (1) sub-list of the group's raw lints and = the
/// model's `removeOverlaps` of them (K op `ro`), (2) pairwise disjoint, (3) one suggestion per
/// reported lint applied by `apply_suggestion` from the last lint to the first = all of them
/// substituted at once.
fn w25_eval_js(sess: &mut Session, js: &mut harper_wasm::Linter, group: &mut LintGroup, di: usize, text: &str, markdown: bool) {
    use harper_wasm::{Language, SuggestionKind};
    let dict = w25_dict(di);
    let raw = guarded(|| {
        let doc = if markdown { Document::new_markdown_default(text, &dict) } else { Document::new_plain_english(text, &dict) };
        group.lint(&doc)
    });
    let Ok(raw) = raw else {
        sess.count("js2:core-lint-panicked(C01)");
        return;
    };
    let Ok(out) = guarded(|| js.lint(text.to_string(), if markdown { Language::Markdown } else { Language::Plain })) else {
        sess.count("js2:lint-panicked(C01)");
        return;
    };
    sess.count(&format!("js2:{}:{}", if markdown { "markdown" } else { "plain" }, W25_SETUPS[di % 4]));
    let input = json!({"w25_js_text": text, "setup": di % 4, "markdown": markdown, "spans": []});
    let spans: Vec<(usize, usize)> = raw.iter().map(|l| (l.span.start, l.span.end)).collect();
    let op = format!("ro {}", show(&mk(&spans)));
    let mut used = vec![false; raw.len()];
    let mut named = vec![];
    let mut invented = None;
    for l in &out {
        let sp = l.span();
        let m = l.message();
        match (0..raw.len()).find(|&k| !used[k] && raw[k].span.start == sp.start && raw[k].span.end == sp.end && raw[k].message == m) {
            Some(k) => {
                used[k] = true;
                named.push(format!("{}:{}:{}", sp.start, sp.end, k));
            }
            None => invented = Some((sp.start, sp.end)),
        }
    }
    let case = sess.k(&op, format!("ok {}", named.join(" ")).trim_end());
    sess.count("origin:js-api-w25");
    let dropped = out.len() < raw.len();
    if dropped {
        sess.count("js2:with-drops");
        sess.nontrivial(&format!("js2|{}|{}|{}", di % 4, markdown, text));
    }
    if let Some(sp) = invented {
        sess.fail("js-invented", format!("Linter::lint ({}) reports {:?}, which is not a lint of the group", W25_SETUPS[di % 4], sp), input.clone(), Some(case));
        return;
    }
    for a in 0..out.len() {
        for b in a + 1..out.len() {
            let (x, y) = (out[a].span(), out[b].span());
            if x.start < y.end && y.start < x.end {
                sess.fail("js-overlap", format!("harper_wasm::Linter::lint ({}, {}) reports [{},{}) and [{},{}), which share a character", W25_SETUPS[di % 4], if markdown { "Markdown" } else { "plain" }, x.start, x.end, y.start, y.end), input.clone(), Some(case));
                return;
            }
        }
    }
    // (3) "can all be fixed in one pass, back to front, without the edits interfering"
    let chars: Vec<char> = text.chars().collect();
    let mut order: Vec<usize> = (0..out.len()).filter(|&i| out[i].suggestion_count() > 0).collect();
    order.sort_by_key(|&i| (out[i].span().start, out[i].span().end));
    let in_range = order.iter().all(|&i| out[i].span().start <= out[i].span().end && out[i].span().end <= chars.len());
    let same_start = order.windows(2).any(|w| out[w[0]].span().start == out[w[1]].span().start);
    if order.len() < 2 || !in_range || same_start {
        sess.count("js2:fixall-not-applicable(<2 fixable lints, a span outside the text (C03), or two lints at one start)");
        return;
    }
    // all at once, left to right, computed here
    let mut want: Vec<char> = vec![];
    let mut pos = 0;
    for &i in &order {
        let sp = out[i].span();
        let s = &out[i].suggestions()[0];
        let repl: Vec<char> = s.get_replacement_text().chars().collect();
        want.extend_from_slice(&chars[pos..sp.start]);
        match s.kind() {
            SuggestionKind::Replace => want.extend(repl),
            SuggestionKind::InsertAfter => {
                want.extend_from_slice(&chars[sp.start..sp.end]);
                want.extend(repl);
            }
            SuggestionKind::Remove => {}
        }
        pos = sp.end;
    }
    want.extend_from_slice(&chars[pos..]);
    let want: String = want.into_iter().collect();
    // one by one, from the last lint to the first, through the JS API
    let got = guarded(|| {
        let mut cur = text.to_string();
        for &i in order.iter().rev() {
            let s = &out[i].suggestions()[0];
            cur = js.apply_suggestion(cur, &out[i], s)?;
        }
        Ok::<String, String>(cur)
    });
    sess.o();
    sess.count("js2:fixall");
    match got {
        Ok(Ok(g)) if g == want => {}
        other => sess.fail(
            "js-fixall-interferes",
            format!("the {} lints Linter::lint ({}) reports, fixed back to front with apply_suggestion, give {:?}; substituting all at once gives {:?}", order.len(), W25_SETUPS[di % 4], other.map(|r| r.map(|s| trunc(&s, 100))), trunc(&want, 100)),
            input,
            Some(case),
        ),
    }
}

fn w25_js_texts(rng: &mut Rng, sents: &[String], n: usize) -> Vec<String> {
    let typos = ["gardn", "mornng", "teh", "recieve", "the the", "the the the", "an apple an apple", "3 apples", "5 $ 3", "$ 25$", "a  b", "naïve 😀 teh"];
    let mut v: Vec<String> = vec![
        "It was the the the end.\n".into(),
        "It costs 5 $ 3 times a year. Pay me $ 25$ now.".into(),
        "Ths  tet".into(),
        "".into(),
        "# Teh the the title\n\n- an an an apple\n- 😀 the the the\n\n> teh quote the the".into(),
    ];
    for i in 0..n {
        let mut words: Vec<String> = vec![];
        // every other text: a sentence of more than 40 words (LongSentences covers the others)
        let target = if i % 2 == 0 { 42 + rng.below(20) } else { 6 + rng.below(20) };
        while words.len() < target {
            let sn = sents[rng.below(sents.len())].trim_end_matches(['.', '!', '?']).to_string();
            words.extend(sn.split(' ').map(|w| w.to_string()));
            words.push("and".into());
        }
        for _ in 0..rng.range(2, 5) {
            let at = rng.below(words.len());
            words.insert(at, rng.pick(&typos).to_string());
        }
        let mut t = format!("{}.", words.join(" "));
        match i % 6 {
            1 => t = format!("# {}\n\n{}\n", rng.pick(sents), t),
            2 => t = format!("- {}\n- {}\n", t, rng.pick(sents)),
            3 => t = t.replacen(' ', "\r\n", 3),
            4 => t = format!("😀 𝒜 {}", t),
            _ => {}
        }
        v.push(t);
    }
    v
}

fn w25_js_stream(sess: &mut Session, rng: &mut Rng, sents: &[String], n: usize) {
    let texts = w25_js_texts(rng, sents, n);
    let mut linters: Vec<harper_wasm::Linter> = (0..4).map(w25_js).collect();
    let mut groups: Vec<LintGroup> = (0..4).map(w25_group).collect();
    for (i, t) in texts.iter().enumerate() {
        let di = i % 4;
        for markdown in [true, false] {
            w25_eval_js(sess, &mut linters[di], &mut groups[di], di, t, markdown);
        }
    }
}

/// lint lists of real documents under other configurations than stream 4 (Markdown, every rule on, other dialects, user words)
fn w25_real_lists(sess: &mut Session, rng: &mut Rng, sents: &[String], n: usize) {
    let mut groups: Vec<LintGroup> = (0..4).map(w25_group).collect();
    for g in groups.iter_mut() {
        g.set_all_rules_to(Some(true));
    }
    for i in 0..n {
        let di = i % 4;
        let dict = w25_dict(di);
        let mut text = String::new();
        for k in 0..rng.range(1, 4) {
            if k > 0 {
                text.push_str(*rng.pick(&[" ", "\n", "\n\n", " and ", "\r\n"]));
            }
            text.push_str(&sents[rng.below(sents.len())]);
        }
        let markdown = i % 2 == 0;
        let Ok(lints) = guarded(|| {
            let doc = if markdown { Document::new_markdown_default(&text, &dict) } else { Document::new_plain_english(&text, &dict) };
            groups[di].lint(&doc)
        }) else {
            continue;
        };
        let spans: Vec<(usize, usize)> = lints.iter().map(|l| (l.span.start, l.span.end)).collect();
        eval(sess, &spans, if markdown { "real-lints-markdown-all-rules" } else { "real-lints-plain-all-rules" });
        sess.count(&format!("real-lints-dialect:{:?}", w25_core_dialect(di)));
    }
}

/// the CLI on generated files: other front-ends (`.typ`, `.rs`, `.lhs`), `--dialect`, generated texts
fn w25_cli_stream(sess: &mut Session, ctx: &Ctx, rng: &mut Rng, sents: &[String], n: usize) {
    let bin = std::path::PathBuf::from(env!("CARGO_MANIFEST_DIR")).join("target").join("lsbin").join("debug").join("harper-cli");
    if !bin.exists() {
        sess.count("cli2:not-built(stream skipped)");
        return;
    }
    let dir = ctx.out.join("c13-cli-w25");
    let _ = std::fs::create_dir_all(&dir);
    let dict = FstDictionary::curated();
    let rule_sets: [&[&str]; 3] = [&["RepeatedWords"], &[], &["RepeatedWords", "AnA"]];
    for i in 0..n {
        let ext = ["md", "typ", "rs", "lhs", "md", "py"][i % 6];
        let dialect = [Dialect::American, Dialect::British, Dialect::Canadian, Dialect::Australian][(i / 2) % 4];
        // a sentence with one word written three or four times
        let mut words: Vec<String> = sents[rng.below(sents.len())].split(' ').map(|w| w.to_string()).collect();
        let at = rng.below(words.len());
        let w = words[at].trim_matches(|c: char| !c.is_alphanumeric()).to_string();
        if w.is_empty() {
            continue;
        }
        for _ in 0..rng.range(2, 3) {
            words.insert(at, w.clone());
        }
        let prose = format!("{} It was the the the end.", words.join(" "));
        let text = match ext {
            "rs" => format!("// {}\nfn main() {{}}\n", prose),
            "py" => format!("# {}\nx = 1\n", prose),
            "typ" => format!("= Heading\n{}\n", prose),
            "lhs" => format!("{}\n\n> main = return ()\n", prose),
            _ => format!("{}\n", prose),
        };
        let file = dir.join(format!("gen{}.{}", i, ext));
        let _ = std::fs::write(&file, &text);
        let rules = rule_sets[i % 3];
        // the document the CLI builds (load_file): by extension
        let want = guarded(|| {
            let md = harper_core::parsers::MarkdownOptions::default();
            let doc = match ext {
                "md" => Document::new(&text, &harper_core::parsers::Markdown::default(), &dict),
                "lhs" => Document::new(&text, &harper_literate_haskell::LiterateHaskellParser::new_markdown(md), &dict),
                "typ" => Document::new(&text, &harper_typst::Typst, &dict),
                _ => match harper_comments::CommentParser::new_from_filename(&file, md) {
                    Some(p) => Document::new(&text, &p, &dict),
                    None => return None,
                },
            };
            let mut g = LintGroup::new_curated(dict.clone(), dialect);
            if !rules.is_empty() {
                g.set_all_rules_to(Some(false));
                for r in rules {
                    g.config.set_rule_enabled(*r, true);
                }
            }
            Some(g.lint(&doc))
        });
        let Ok(Some(mut want)) = want else { continue };
        let raw_n = want.len();
        remove_overlaps(&mut want);
        let mut cmd = std::process::Command::new(&bin);
        cmd.arg("lint").arg(&file).arg("--dialect").arg(dialect.to_string()).arg("--user-dict-path").arg(dir.join("no_user_dict.txt")).arg("--file-dict-path").arg(dir.join("no_file_dicts"));
        for r in rules {
            cmd.arg("--only-lint-with").arg(r);
        }
        let Ok(out) = cmd.output() else { continue };
        let report = format!("{}{}", String::from_utf8_lossy(&out.stdout), String::from_utf8_lossy(&out.stderr));
        sess.o();
        sess.count("origin:cli-w25");
        sess.count(&format!("cli2:.{}:{:?}:{}-rule(s)", ext, dialect, rules.len()));
        let mut msgs: Vec<String> = want.iter().map(|l| l.message.clone()).collect();
        msgs.sort();
        msgs.dedup();
        for m in msgs {
            // ariadne wraps nothing, but a message that is a substring of another would be counted twice
            if want.iter().any(|l| l.message != m && l.message.contains(m.as_str())) {
                continue;
            }
            let expect = want.iter().filter(|l| l.message == m).count();
            let got = report.matches(m.as_str()).count();
            if got != expect {
                sess.fail("cli-overlap", format!("harper-cli lint {:?} (.{}, {:?}) --only-lint-with {:?}: the report carries {:?} {} time(s), remove_overlaps of the group's {} lints keeps {} such lint(s)", text, ext, dialect, rules, m, got, raw_n, expect), json!({"cli_text": text, "ext": ext, "rules": rules, "spans": []}), None);
            }
        }
        if raw_n > want.len() {
            sess.nontrivial(&format!("cli2|{}|{:?}", text, rules));
            sess.count("cli2:with-drops");
        }
    }
}

/// all w25 streams; called from `run` after stream 6 (which builds the CLI)
fn w25_run(sess: &mut Session, ctx: &Ctx, rng: &mut Rng) {
    let thorough = ctx.tier == Tier::Thorough;
    let sents = crate::corpus::sentences();
    let mut r = rng.fork();
    w25_long_lists(sess, &mut r, if thorough { 400 } else { 40 });
    w25_real_lists(sess, &mut r, sents, if thorough { 3000 } else { 240 });
    w25_js_stream(sess, &mut r, sents, if thorough { 800 } else { 44 });
    w25_cli_stream(sess, ctx, &mut r, sents, if thorough { 60 } else { 6 });
}
