//! `lex_url`, `lex_email_address`, `lex_hostname_token` (and `lex_hostname`) are private to
//! harper-core and, inside `lex_token`, partly shadowed by earlier lexers (a quoted local part
//! starts with a quote character, which `lex_punctuation` takes first). To compare the Lean
//! model of these functions on ARBITRARY slices, the three source files of /repo are compiled
//! into the harness unchanged (`#[path]`), exactly like harper-ls's modules.
//! They refer to `super::FoundToken`, `super::hostname::lex_hostname` and `crate::TokenKind`:
//! the first two are provided here, the last by `use harper_core::TokenKind;` in `main.rs`.
use harper_core::TokenKind;

pub struct FoundToken {
    pub next_index: usize,
    pub token: TokenKind,
}

#[path = "/repo/harper-core/src/lexing/hostname.rs"]
pub mod hostname;
#[path = "/repo/harper-core/src/lexing/url.rs"]
pub mod url;
#[path = "/repo/harper-core/src/lexing/email_address.rs"]
pub mod email_address;

fn show(r: Option<usize>) -> String {
    match r {
        Some(n) => n.to_string(),
        None => "-".into(),
    }
}

/// `lex_url`, `lex_email_address`, `lex_hostname_token`, `lex_hostname` on `src`
/// (`next_index` of each); `Err` = one of them panicked
pub fn extlex(src: &[char]) -> Result<[Option<usize>; 4], String> {
    crate::common::guarded(|| {
        [
            url::lex_url(src).map(|f| {
                assert!(matches!(f.token, TokenKind::Url));
                f.next_index
            }),
            email_address::lex_email_address(src).map(|f| {
                assert!(matches!(f.token, TokenKind::EmailAddress));
                f.next_index
            }),
            hostname::lex_hostname_token(src).map(|f| {
                assert!(matches!(f.token, TokenKind::Hostname));
                f.next_index
            }),
            hostname::lex_hostname(src),
        ]
    })
}

/// printed like the model's `extlex` op
pub fn extlex_show(r: &[Option<usize>; 4]) -> String {
    format!("ok url={} email={} host={} hostname={}", show(r[0]), show(r[1]), show(r[2]), show(r[3]))
}
