//! C17 — ordinal suffixes are judged correctly for every number.
//!
//! Every case is a text `prefix ++ digits ++ word ++ follow` pushed through the REAL pipeline:
//! `Document::new_plain_english` (lexer, `condense_number_suffixes`) and a `LintGroup` in which
//! ONLY `CorrectNumberSuffix` is enabled.
//!
//! K: `nsrule <n> <p> <p+|digits|+|word|> | <word cps>` — the Lean model is told the number, the
//!    word written directly after it and where the pair sits *by construction of the text* (not the
//!    real token stream), and must predict the real lint list (span, replacement). Also `sfx`,
//!    `fromchars`, `tochars` against `NumberSuffix::{correct_suffix_for, from_chars, to_chars}`.
//! O: the property itself on the real output, against an oracle that reads the *written digits*:
//!    lint exactly when the spelled suffix is not the English one, span = the two suffix letters,
//!    suggestion = the correct suffix (compared case-insensitively), and after the real
//!    `Suggestion::apply` the re-parsed text is clean.
//! Scope of the property: decimal digit string with value < 2^53 (leading zeros allowed), directly
//! followed by one of st/nd/rd/th in any letter case, then the end of the text or a character that
//! is not alphanumeric. Everything else (`21stuff`, `3.5th`, `1e5th`, ≥ 2^53) is probed and
//! reported in the evidence (`extra.out_of_scope`) but is not judged.
use crate::common::*;
use harper_core::linting::{LintGroup, Linter, Suggestion};
use harper_core::{Dialect, Document, FstDictionary, NumberSuffix, TokenKind};
use serde_json::{Value, json};
use std::cell::RefCell;
use std::collections::BTreeMap;

const LIMIT: u64 = 1 << 53;

thread_local! {
    static GROUP: RefCell<Option<LintGroup>> = const { RefCell::new(None) };
}

/// Run `f` with this thread's `LintGroup` in which only `CorrectNumberSuffix` is enabled.
fn with_group<R>(f: impl FnOnce(&mut LintGroup) -> R) -> R {
    GROUP.with(|g| {
        let mut g = g.borrow_mut();
        if g.is_none() {
            let mut group = LintGroup::new_curated(FstDictionary::curated(), Dialect::American);
            group.config.clear();
            group.config.set_rule_enabled("CorrectNumberSuffix", true);
            *g = Some(group);
        }
        f(g.as_mut().unwrap())
    })
}

#[derive(Clone)]
struct Case {
    prefix: String,
    digits: String, // the number literal as written (decimal digits; probes may use other shapes)
    word: String,   // what is written directly after it (suffix spelling, + letters in probes)
    follow: String,
    origin: &'static str,
}

impl Case {
    fn new(prefix: &str, digits: &str, word: &str, follow: &str, origin: &'static str) -> Self {
        Case { prefix: prefix.into(), digits: digits.into(), word: word.into(), follow: follow.into(), origin }
    }
    fn text(&self) -> String {
        format!("{}{}{}{}", self.prefix, self.digits, self.word, self.follow)
    }
    fn p(&self) -> usize {
        self.prefix.chars().count()
    }
    fn json(&self) -> Value {
        json!({"prefix": self.prefix, "digits": self.digits, "word": self.word, "follow": self.follow, "text": self.text()})
    }
    /// value of the literal when it is a plain decimal digit string below 2^53
    fn nat(&self) -> Option<u64> {
        if self.digits.is_empty() || !self.digits.chars().all(|c| c.is_ascii_digit()) {
            return None;
        }
        let t = self.digits.trim_start_matches('0');
        if t.len() > 16 {
            return None;
        }
        let n: u64 = if t.is_empty() { 0 } else { t.parse().ok()? };
        (n < LIMIT).then_some(n)
    }
    /// the spelled suffix (lower-case) when `word` is one of the sixteen spellings
    fn spelled(&self) -> Option<&'static str> {
        let l = self.word.to_ascii_lowercase();
        if self.word.chars().count() != 2 || !self.word.is_ascii() {
            return None;
        }
        ["st", "nd", "rd", "th"].into_iter().find(|s| *s == l)
    }
    /// Why the case is outside the property's scope (`None` = in scope).
    fn out_of_scope(&self) -> Option<&'static str> {
        if self.nat().is_none() {
            return Some(if self.digits.chars().all(|c| c.is_ascii_digit()) { "value>=2^53" } else { "not-a-decimal-integer-literal" });
        }
        if self.spelled().is_none() {
            return Some("word-is-not-a-two-letter-suffix");
        }
        if self.follow.chars().next().is_some_and(|c| c.is_alphanumeric()) {
            return Some("followed-by-alphanumeric");
        }
        if self.prefix.chars().last().is_some_and(|c| c.is_alphanumeric() || c == '.' || c == ',') {
            return Some("preceded-by-alphanumeric-or-decimal-point");
        }
        None
    }
}

/// The oracle: English ordinal suffix read off the WRITTEN digits (no arithmetic).
fn english(digits: &str) -> &'static str {
    let b = digits.as_bytes();
    let last = b[b.len() - 1];
    let tens = if b.len() >= 2 { b[b.len() - 2] } else { b'0' };
    if tens == b'1' {
        return "th";
    }
    match last {
        b'1' => "st",
        b'2' => "nd",
        b'3' => "rd",
        _ => "th",
    }
}

fn sfx_name(s: Option<NumberSuffix>) -> &'static str {
    match s {
        Some(NumberSuffix::Th) => "th",
        Some(NumberSuffix::St) => "st",
        Some(NumberSuffix::Nd) => "nd",
        Some(NumberSuffix::Rd) => "rd",
        None => "none",
    }
}

/// What the real pipeline did with one text.
struct Outcome {
    /// lints as (start, end, suggestions rendered) or a panic
    lints: Result<Vec<(usize, usize, Vec<Option<Vec<char>>>)>, String>,
    /// the token starting at `p`: (end, is Number, value, suffix)
    tok: Option<(usize, bool, f64, Option<NumberSuffix>)>,
    /// the token that starts where the token at `p` ends: (end, kind name)
    next: Option<(usize, &'static str)>,
    /// after applying the first suggestion of the first lint: (new text, number of lints) or panic
    fixed: Option<Result<(String, usize), String>>,
}

fn run_real(text: &str, p: usize) -> Outcome {
    let dict = FstDictionary::curated();
    let r = guarded(|| {
        let doc = Document::new_plain_english(text, &dict);
        let tok = doc.get_tokens().iter().find(|t| t.span.start == p).map(|t| match &t.kind {
            TokenKind::Number(n) => (t.span.end, true, n.value.0, n.suffix),
            _ => (t.span.end, false, 0.0, None),
        });
        let next = tok.and_then(|t| doc.get_tokens().iter().find(|x| x.span.start == t.0)).map(|x| {
            (x.span.end, match &x.kind {
                TokenKind::Word(_) => "Word",
                TokenKind::Hostname => "Hostname",
                TokenKind::EmailAddress => "EmailAddress",
                TokenKind::Url => "Url",
                TokenKind::Number(_) => "Number",
                TokenKind::Punctuation(_) => "Punctuation",
                TokenKind::Space(_) => "Space",
                _ => "other",
            })
        });
        let lints = with_group(|g| g.lint(&doc));
        (tok, next, lints)
    });
    match r {
        Err(e) => Outcome { lints: Err(e), tok: None, next: None, fixed: None },
        Ok((tok, next, lints)) => {
            let fixed = lints.first().and_then(|l| l.suggestions.first().map(|s| (l.span, s.clone()))).map(|(span, s)| {
                guarded(|| {
                    let mut src: Vec<char> = text.chars().collect();
                    s.apply(span, &mut src);
                    let t2: String = src.iter().collect();
                    let doc2 = Document::new_plain_english(&t2, &dict);
                    let n = with_group(|g| g.lint(&doc2)).len();
                    (t2, n)
                })
            });
            let lints = lints
                .iter()
                .map(|l| {
                    let sugg = l
                        .suggestions
                        .iter()
                        .map(|s| match s {
                            Suggestion::ReplaceWith(cs) => Some(cs.clone()),
                            _ => None,
                        })
                        .collect();
                    (l.span.start, l.span.end, sugg)
                })
                .collect();
            Outcome { lints: Ok(lints), tok, next, fixed }
        }
    }
}

fn impl_line(o: &Outcome) -> String {
    match &o.lints {
        Err(_) => "panic".into(),
        Ok(l) if l.is_empty() => "ok none".into(),
        Ok(l) if l.len() == 1 && l[0].2.len() == 1 && l[0].2[0].is_some() => {
            format!("ok {} {} | {}", l[0].0, l[0].1, chars_field(l[0].2[0].as_ref().unwrap())).trim_end().to_string()
        }
        Ok(l) => format!("ok unexpected-shape lints={} first={:?}", l.len(), l.first().map(|x| (x.0, x.1, x.2.len()))),
    }
}

/// How a known deviation of the real pipeline is classified. The matcher is as narrow as the
/// defect: it looks at the input's shape AND at what the real lexer made of the suffix letters.
/// In both classes the number token ends right after the digits (no suffix was attached) because
/// the suffix letters were swallowed by a longer token.
fn known_class(c: &Case, o: &Outcome) -> Option<&'static str> {
    let f: Vec<char> = c.follow.chars().collect();
    let nd = c.digits.chars().count();
    let (tok, next) = (o.tok?, o.next?);
    if tok.0 != c.p() + nd || tok.3.is_some() || next.0 <= c.p() + nd + 2 {
        return None;
    }
    // `22st's`: apostrophe + letter directly after the suffix → `condense_contractions` (which runs
    // before `condense_number_suffixes`) glues `st's` into one Word, no longer two letters long
    if f.len() >= 2 && (f[0] == '\'' || f[0] == '’') && f[1].is_alphanumeric() && next.1 == "Word" {
        return Some("suffix-glued-into-contraction");
    }
    // `2st.Next`, `2st.com`, `2st@example.com`, `2st://x`: after `lex_number` took the digits, the
    // suffix letters start a Hostname / EmailAddress / Url token, so no Word follows the number
    let shape = (f.len() >= 2 && (f[0] == '.' || f[0] == '@') && f[1].is_alphanumeric()) || c.follow.starts_with("://");
    if shape && matches!(next.1, "Hostname" | "EmailAddress" | "Url") {
        return Some("suffix-starts-hostname-email-url");
    }
    None
}

struct Tally {
    oos: BTreeMap<String, BTreeMap<String, u64>>,
    oos_samples: BTreeMap<String, Vec<Value>>,
}

/// Record one evaluated case: K line, monitors, and the property's clauses on the real output.
fn record(sess: &mut Session, tally: &mut Tally, c: &Case, o: &Outcome) {
    let text = c.text();
    let p = c.p();
    let nd = c.digits.chars().count();
    let nw = c.word.chars().count();
    let wchars: Vec<char> = c.word.chars().collect();
    sess.count(&format!("origin:{}", c.origin));
    // ---- K: the model's prediction (only where the model has a value for the literal)
    let val = match c.nat() {
        Some(n) => Some(n.to_string()),
        None if c.digits.contains('.') && c.digits.parse::<f64>().is_ok_and(|v| v.fract() > 1e-9) => Some("frac".to_string()),
        None => None,
    };
    let mut case_no = None;
    let scope = c.out_of_scope();
    let known = if scope.is_none() { known_class(c, o) } else { None };
    if let Some(k) = known {
        // the lexer assumption of the model is known to fail on this shape: oracle only
        sess.count(&format!("known-shape:{}", k));
        sess.o();
    } else if scope == Some("followed-by-alphanumeric") {
        // the word the lexer sees is longer than `word`; the model is exercised on such words by
        // the cases that spell them out in `word` (`21stuff`), here only the real verdict is tabulated
        sess.o();
    } else if let Some(v) = &val {
        let op = format!("nsrule {} {} {} | {}", v, p, p + nd + nw, chars_field(&wchars)).trim_end().to_string();
        let il = impl_line(o);
        if il != "ok none" {
            sess.nontrivial(&format!("{}|{}|{}", c.digits, c.word, p));
        }
        case_no = Some(sess.k(&op, &il));
    } else {
        sess.o();
    }
    if let Some(why) = scope {
        // not judged: tabulate what the real code did
        let verdict = match &o.lints {
            Err(_) => "panic".to_string(),
            Ok(l) if l.is_empty() => "no-lint".to_string(),
            Ok(l) => format!("lint→{}", l[0].2.first().and_then(|s| s.as_ref()).map(|s| s.iter().collect::<String>()).unwrap_or_default()),
        };
        *tally.oos.entry(why.to_string()).or_default().entry(verdict.clone()).or_insert(0) += 1;
        let v = tally.oos_samples.entry(why.to_string()).or_default();
        if v.len() < 12 {
            v.push(json!({"text": text, "real": verdict, "token_at_number": o.tok.map(|t| json!({"end": t.0, "number": t.1, "suffix": sfx_name(t.3)}))}));
        }
        sess.count(&format!("out-of-scope:{}", why));
        if o.lints.is_err() {
            sess.fail("panic", format!("pipeline panicked on {:?}", text), c.json(), case_no);
        }
        return;
    }
    // ---- in scope
    let n = c.nat().unwrap();
    let spelled = c.spelled().unwrap();
    let expected = english(&c.digits);
    let wrong = spelled != expected;
    sess.count(if wrong { "in-scope:wrong-suffix" } else { "in-scope:right-suffix" });
    if c.digits.starts_with('0') && nd > 1 {
        sess.count("in-scope:leading-zero");
    }
    if n >= 100000 {
        sess.count("in-scope:n>=1e5");
    }
    // assumption monitors for the unmodelled lexer / f64 parsing (hypotheses of the Lean statements)
    if known.is_none() {
        let exact = c.digits.parse::<f64>().is_ok_and(|v| v == n as f64 && (v as u64) == n);
        sess.monitor("f64-parse-exact-below-2^53", exact);
        let want_sfx = NumberSuffix::from_chars(&wchars);
        let tok_ok = o.tok.is_some_and(|t| t.0 == p + nd + 2 && t.1 && t.2 == n as f64 && t.3 == want_sfx && want_sfx.is_some());
        sess.monitor("lexed-as-one-number-token-with-suffix", tok_ok || o.lints.is_err());
    }
    let fail = |sess: &mut Session, class: &str, desc: String| {
        let class = known.unwrap_or(class);
        sess.fail(class, desc, c.json(), case_no);
    };
    let lints = match &o.lints {
        Err(e) => {
            sess.fail("panic", format!("pipeline panicked on {:?}: {}", text, trunc(e, 120)), c.json(), case_no);
            return;
        }
        Ok(l) => l,
    };
    if !wrong {
        if !lints.is_empty() {
            fail(sess, "false-alarm", format!("{:?}: {}{} is correct English but {} lint(s) reported", text, c.digits, c.word, lints.len()));
        }
        return;
    }
    if lints.is_empty() {
        fail(sess, "missed", format!("{:?}: {}{} should be {}{} but nothing is reported", text, c.digits, c.word, c.digits, expected));
        return;
    }
    if lints.len() != 1 {
        fail(sess, "extra-lints", format!("{:?}: {} lints for one wrong suffix", text, lints.len()));
        return;
    }
    let (s, e, sugg) = &lints[0];
    if (*s, *e) != (p + nd, p + nd + 2) {
        fail(sess, "span", format!("{:?}: lint covers [{}, {}), the suffix letters are [{}, {})", text, s, e, p + nd, p + nd + 2));
        return;
    }
    let good = sugg.len() == 1 && sugg[0].as_ref().is_some_and(|cs| cs.iter().collect::<String>().to_ascii_lowercase() == expected);
    if !good {
        fail(sess, "suggestion", format!("{:?}: suggestion {:?}, correct suffix is {:?}", text, sugg, expected));
        return;
    }
    if sugg[0].as_ref().unwrap().iter().collect::<String>() != expected {
        sess.count("suggestion-not-lower-case");
    }
    match &o.fixed {
        Some(Ok((t2, n2))) => {
            let want = format!("{}{}{}{}", c.prefix, c.digits, expected, c.follow);
            if t2.to_ascii_lowercase() != want.to_ascii_lowercase() || t2.chars().count() != text.chars().count() {
                fail(sess, "apply", format!("{:?}: applying the suggestion gives {:?}, expected {:?}", text, t2, want));
            } else if *n2 != 0 {
                fail(sess, "not-fixed", format!("{:?} → {:?}: {} lint(s) remain after applying the suggestion", text, t2, n2));
            }
        }
        Some(Err(e)) => fail(sess, "panic", format!("{:?}: applying the suggestion / re-linting panicked: {}", text, trunc(e, 120))),
        None => fail(sess, "suggestion", format!("{:?}: lint has no suggestion to apply", text)),
    }
}

/// Evaluate a batch on all cores, record sequentially (deterministic order).
fn run_batch(sess: &mut Session, tally: &mut Tally, cases: &[Case]) {
    let threads = std::thread::available_parallelism().map(|n| n.get()).unwrap_or(4).min(16);
    for chunk in cases.chunks(200_000) {
        let outs = par_map(chunk.len(), threads, |i| run_real(&chunk[i].text(), chunk[i].p()));
        for (c, o) in chunk.iter().zip(outs.iter()) {
            record(sess, tally, c, o);
        }
    }
}

const SPELLINGS: [&str; 16] =
    ["st", "St", "sT", "ST", "nd", "Nd", "nD", "ND", "rd", "Rd", "rD", "RD", "th", "Th", "tH", "TH"];

/// Embed `<digits><word>` as a word of its own at a random position of a digit-free sentence,
/// optionally wrapped / followed by punctuation.
fn embed(rng: &mut Rng, sents: &[String], digits: &str, word: &str, origin: &'static str) -> Case {
    let s = &sents[rng.below(sents.len())];
    let words: Vec<&str> = s.split(' ').collect();
    let at = rng.below(words.len() + 1);
    let mut prefix = words[..at].join(" ");
    if at > 0 {
        prefix.push(' ');
    }
    let mut follow = String::new();
    match rng.below(8) {
        0 => {
            prefix.push('(');
            follow.push(')');
        }
        1 => {
            prefix.push('"');
            follow.push('"');
        }
        2 => follow.push(','),
        3 => follow.push_str(*rng.pick(&[".", "!", "?", ";", ":", "-", "/", "…", "—"])),
        _ => {}
    }
    if at < words.len() {
        follow.push(' ');
        follow.push_str(&words[at..].join(" "));
    }
    // OTHER (correct) ordinals in the same document, before and / or after the one under test:
    // `condense_number_suffixes` merges several (number, suffix) pairs in one pass over the token
    // vector, and the index arithmetic of that pass only shows with two or more of them
    match rng.below(6) {
        0 => prefix = format!("On the 1st and the 22nd, {}", prefix),
        1 => follow.push_str(" and the 2nd of the 103rd"),
        2 => {
            prefix = format!("The 3rd time, {}", prefix);
            follow.push_str(" or the 11th");
        }
        _ => {}
    }
    Case { prefix, digits: digits.to_string(), word: word.to_string(), follow, origin }
}

fn random_digits(rng: &mut Rng) -> String {
    // uniform in the number of digits, so every magnitude up to 2^53-1 is visited
    let n = loop {
        let len = rng.range(1, 16);
        let mut v: u64 = 0;
        for i in 0..len {
            let d = if i == 0 && len > 1 { 1 + rng.below(9) } else { rng.below(10) } as u64;
            v = v * 10 + d;
        }
        // bias the last two digits towards the interesting ones
        if rng.chance(1, 2) {
            v = v / 100 * 100 + *rng.pick(&[1u64, 2, 3, 11, 12, 13, 21, 22, 23, 10, 20, 0, 4, 14, 99]);
        }
        if v < LIMIT {
            break v;
        }
    };
    let n = match rng.below(12) {
        0 => LIMIT - 1 - rng.below(200) as u64,
        _ => n,
    };
    let mut s = n.to_string();
    if rng.chance(1, 4) {
        s = "0".repeat(rng.range(1, 3)) + &s;
    }
    s
}

pub fn run(ctx: &Ctx) {
    let mut sess = Session::new(ctx);
    let mut tally = Tally { oos: BTreeMap::new(), oos_samples: BTreeMap::new() };
    let mut rng = Rng::new(ctx.seed);
    if let Some(v) = replay_input(ctx) {
        if v.get("w25").is_some() {
            w25_replay(&mut sess, ctx, &v);
            sess.nontrivial("replay-a");
            sess.nontrivial("replay-b");
            sess.finish("replay of one recorded input", false, json!({}));
            return;
        }
        let g = |k: &str| v[k].as_str().unwrap_or("").to_string();
        let c = Case { prefix: g("prefix"), digits: g("digits"), word: g("word"), follow: g("follow"), origin: "replay" };
        {
            // show the real token stream of the replayed text (diagnostics for the reader of the log)
            let dict = FstDictionary::curated();
            let text = c.text();
            if let Ok(doc) = guarded(|| Document::new_plain_english(&text, &dict)) {
                let src: Vec<char> = text.chars().collect();
                for t in doc.get_tokens() {
                    let kind = format!("{:?}", t.kind);
                    println!("token [{}, {}) {:?} {}", t.span.start, t.span.end, src[t.span.start..t.span.end].iter().collect::<String>(), trunc(&kind, 60));
                }
            }
        }
        run_batch(&mut sess, &mut tally, &[c]);
        sess.nontrivial("replay-a");
        sess.nontrivial("replay-b");
        sess.finish("replay of one recorded input", false, json!({}));
        return;
    }
    let thorough = ctx.tier == Tier::Thorough;
    let sents: Vec<String> = crate::corpus::sentences()
        .iter()
        .filter(|s| !s.chars().any(|c| c.is_numeric() || c == '\n' || c == '\t') && s.chars().count() < 200)
        .cloned()
        .collect();
    sess.add("sentences-without-digits", sents.len() as u64);

    // ---- 0. the tables, function by function
    let alphabet: Vec<char> = "stndrhSTNDRHxX1 e'".chars().collect();
    for a in &alphabet {
        for b in &alphabet {
            for extra in [None, Some('s'), Some('x')] {
                let mut cs = vec![*a, *b];
                if let Some(x) = extra {
                    cs.push(x);
                }
                let r = guarded(|| NumberSuffix::from_chars(&cs));
                let il = match r {
                    Ok(s) => format!("ok {}", sfx_name(s)),
                    Err(_) => "panic".into(),
                };
                sess.k(&format!("fromchars {}", chars_field(&cs)), &il);
            }
        }
        let r = guarded(|| NumberSuffix::from_chars(&[*a]));
        sess.k(&format!("fromchars {}", *a as u32), &match r { Ok(s) => format!("ok {}", sfx_name(s)), Err(_) => "panic".into() });
    }
    sess.k("fromchars", &match guarded(|| NumberSuffix::from_chars(&[])) { Ok(s) => format!("ok {}", sfx_name(s)), Err(_) => "panic".into() });
    for (s, name) in [(NumberSuffix::Th, "th"), (NumberSuffix::St, "st"), (NumberSuffix::Nd, "nd"), (NumberSuffix::Rd, "rd")] {
        let cs = s.to_chars();
        sess.k(&format!("tochars {}", name), &format!("ok {}", chars_field(&cs)));
        // O: the letters are the suffix's name and are read back as the same suffix
        if cs.iter().collect::<String>() != name || NumberSuffix::from_chars(&cs) != Some(s) {
            sess.fail("to-chars", format!("to_chars({}) = {:?}", name, cs), json!({"suffix": name}), None);
        }
    }
    let nmax: u64 = if thorough { 100_000 } else { 10_000 };
    let sfx_case = |sess: &mut Session, n: u64| {
        let r = guarded(|| NumberSuffix::correct_suffix_for(n as f64));
        let il = match r {
            Ok(s) => format!("ok {}", sfx_name(s)),
            Err(_) => "panic".into(),
        };
        let case = sess.k(&format!("sfx {}", n), &il);
        if il != format!("ok {}", english(&n.to_string())) {
            sess.fail("correct-suffix-for", format!("correct_suffix_for({}) = {}, English says {}", n, il, english(&n.to_string())), json!({"prefix": "", "digits": n.to_string(), "word": "th", "follow": ""}), Some(case));
        }
    };
    for n in 0..nmax {
        sfx_case(&mut sess, n);
    }
    for _ in 0..(if thorough { 200_000 } else { 20_000 }) {
        let n: u64 = random_digits(&mut rng).parse().unwrap();
        sfx_case(&mut sess, n);
    }
    for i in 0..400u64 {
        // values the guard rejects
        let v = (rng.below(100_000) as f64) + [0.5, 0.25, 0.001, 0.999, 0.1][(i % 5) as usize];
        let r = guarded(|| NumberSuffix::correct_suffix_for(v));
        sess.k("sfx frac", &match r { Ok(s) => format!("ok {}", sfx_name(s)), Err(_) => "panic".into() });
    }

    // ---- 1. corpus: witnesses of past findings and boundary numbers
    let mut cases = vec![];
    for (d, w) in [
        ("1980", "st"), ("1980", "sT"), ("1980", "St"), ("2010", "th"), ("2010", "st"), ("1000", "st"), ("2990", "sT"),
        ("007", "th"), ("007", "st"), ("0", "th"), ("0", "st"), ("00", "th"), ("011", "st"), ("0011", "th"), ("01", "st"), ("01", "th"),
        ("11", "st"), ("12", "nd"), ("13", "rd"), ("111", "st"), ("112", "nd"), ("113", "rd"), ("1011", "th"), ("21", "st"), ("22", "nd"),
        ("23", "rd"), ("101", "st"), ("101", "nd"), ("1012", "th"), ("1012", "rd"), ("2", "st"), ("2", "nd"),
        ("9007199254740991", "st"), ("9007199254740991", "th"), ("9007199254740990", "th"), ("9007199254740913", "rd"),
        ("4503599627370497", "th"), ("4503599627370497", "ST"), ("100000000000000", "th"),
    ] {
        cases.push(Case::new("The ", d, w, " item.", "corpus"));
        cases.push(Case::new("", d, w, "", "corpus"));
    }
    run_batch(&mut sess, &mut tally, &cases);

    // ---- 2. exhaustive small scope: n < nmax × 16 spellings, in the template and embedded
    let mut lo = 0u64;
    while lo < nmax {
        let hi = (lo + 5000).min(nmax);
        let mut cases = Vec::with_capacity(((hi - lo) as usize) * 32);
        for n in lo..hi {
            let d = n.to_string();
            for w in SPELLINGS {
                cases.push(Case::new("The ", &d, w, " item.", "exhaustive-template"));
                cases.push(embed(&mut rng, &sents, &d, w, "exhaustive-embedded"));
            }
        }
        run_batch(&mut sess, &mut tally, &cases);
        lo = hi;
    }

    // ---- 3. structured random up to 2^53 - 1: leading zeros, long-decade shapes, every magnitude
    let mut cases = vec![];
    for _ in 0..(if thorough { 200_000 } else { 4_000 }) {
        let d = random_digits(&mut rng);
        let w = *rng.pick(&SPELLINGS);
        if rng.chance(1, 3) {
            cases.push(Case::new("The ", &d, w, " item.", "random-template"));
        } else {
            cases.push(embed(&mut rng, &sents, &d, w, "random-embedded"));
        }
    }
    // long-decade shapes [12]dd0 with leading zeros too, all spellings
    for n in (1000..3000u64).step_by(10) {
        for w in SPELLINGS {
            if thorough || rng.chance(1, 4) {
                cases.push(embed(&mut rng, &sents, &n.to_string(), w, "decade-shape"));
            }
        }
    }
    // numbers with leading zeros, exhaustively for small values
    for n in 0..(if thorough { 1200u64 } else { 130 }) {
        for z in ["0", "00"] {
            for w in ["st", "ND", "rD", "Th"] {
                cases.push(Case::new("Agent ", &format!("{}{}", z, n), w, ".", "leading-zeros"));
            }
        }
    }
    run_batch(&mut sess, &mut tally, &cases);

    // ---- 4. what may directly follow / precede: every non-alphanumeric ASCII character and some others
    let mut cases = vec![];
    let mut marks: Vec<char> = (0x20u8..0x7f).map(|b| b as char).filter(|c| !c.is_ascii_alphanumeric()).collect();
    marks.extend(['\n', '\t', '\u{a0}', '’', '‘', '“', '”', '…', '—', '–', '«', '»', '¿', '€', '°', '、', '。', '😀', '\u{200b}']);
    for m in &marks {
        for (d, w) in [("2", "st"), ("22", "ND"), ("13", "th"), ("101", "st"), ("112", "nD"), ("1980", "st")] {
            cases.push(Case::new("See the ", d, w, &format!("{}", m), "follower"));
            cases.push(Case::new("See the ", d, w, &format!("{} thing", m), "follower"));
            cases.push(Case::new("See the ", d, w, &format!("{}s", m), "follower-then-letter"));
            cases.push(Case::new("See the ", d, w, &format!("{}{}", m, m), "follower"));
            if *m != '.' && *m != ',' {
                cases.push(Case::new(&format!("See the {}", m), d, w, " thing", "preceder"));
                cases.push(Case::new(&format!("{}", m), d, w, "", "preceder"));
            }
        }
    }
    for (d, w) in [("2", "st"), ("22", "nd"), ("23", "RD"), ("3", "th")] {
        for f in [".com", ".Next one", ".next", "@example.com", "://x", ".5", ",5", ".", "..", "...", ". ", "'s", "’s", "'", "' ", "'S turn", "-century", "–ish", "/2nd", "_x", "*", "**bold**", "\u{301}"] {
            cases.push(Case::new("It was the ", d, w, f, "follower-strings"));
        }
    }
    run_batch(&mut sess, &mut tally, &cases);

    // ---- 5. outside the property's scope: probed, tabulated, not judged
    let mut cases = vec![];
    for (d, w, f) in [
        ("21", "stuff", ""), ("1", "stx", ""), ("1", "st", "2"), ("2", "st", "x"), ("2", "nd", "s"), ("3", "rdé", ""), ("2", "st", "д"),
        ("2", "st", "中"), ("2", "st", "2"), ("2", "s", ""), ("2", "t", " x"), ("2", "xy", ""), ("2", "", " st"), ("2", " st", ""),
        ("3.5", "th", ""), ("3.5", "st", ""), ("0.1", "st", ""), ("2.0", "st", ""), ("2.0", "nd", ""), ("1e5", "th", ""), ("1e5", "st", ""),
        ("1e2", "nd", ""), ("0x1", "st", ""), ("9007199254740992", "nd", ""), ("9007199254740993", "rd", ""), ("9007199254740993", "nd", ""),
        ("18446744073709551615", "th", ""), ("18446744073709551617", "th", ""), ("100000000000000000000001", "st", ""),
        (&format!("1{}", "0".repeat(400)), "st", ""), ("²", "nd", ""), ("٣", "rd", ""), ("1,000", "th", ""), ("1,001", "th", ""),
    ] {
        cases.push(Case::new("The ", d, w, &format!("{} item.", f), "out-of-scope-probe"));
    }
    for _ in 0..(if thorough { 2000 } else { 300 }) {
        let d = format!("{}.{}", rng.below(1000), 1 + rng.below(99));
        let w0 = *rng.pick(&SPELLINGS);
        cases.push(embed(&mut rng, &sents, &d, w0, "fractions"));
        let d = random_digits(&mut rng);
        let tail: String = (0..rng.range(1, 3)).map(|_| *rng.pick(&['a', 's', 't', 'x', '1', '0', 'E'])).collect();
        let w = format!("{}{}", rng.pick(&SPELLINGS), tail);
        cases.push(embed(&mut rng, &sents, &d, &w, "suffix-then-alphanumerics"));
    }
    run_batch(&mut sess, &mut tally, &cases);

    // ---- 6. w25: other call sites, configurations and document shapes (see the section below)
    w25_streams(&mut sess, &mut tally, ctx, &mut rng, &sents);

    let oos: BTreeMap<String, Value> = tally
        .oos
        .iter()
        .map(|(k, v)| (k.clone(), json!({"real_verdicts": v, "samples": tally.oos_samples.get(k)})))
        .collect();
    sess.finish(
        &format!(
            "NumberSuffix::from_chars on all 1–3 letter strings over an 18-character alphabet, to_chars, correct_suffix_for on 0..{nmax} exhaustively + random up to 2^53-1; then the REAL pipeline (plain-English lexer, condense_number_suffixes, LintGroup with only CorrectNumberSuffix enabled) on `The <n><suffix> item.` and on the number embedded at random word positions (optionally parenthesised / quoted / followed by punctuation) of digit-free rule-test sentences, for every n in 0..{nmax} × all 16 spellings of st/nd/rd/th exhaustively; random n up to 2^53-1 of every magnitude incl. leading zeros; long-decade shapes [12]dd0; every non-alphanumeric ASCII character (and 19 others) directly after / before the ordinal. W25: the same judgement (K + O) with non-ASCII / astral / combining / CRLF / very long prefixes; documents with 2–6 ordinals (any mixture of right and wrong ones) judged as a whole — lints = exactly the wrong ones, each over its two letters with the right suffix, all suggestions applied → clean — through: the rule called directly (`CorrectNumberSuffix.lint`), a NEW group per document, all curated rules on (lints selected by the rule's message) under every dialect, a merged dictionary with user words, Markdown (also inside emphasis) and a Rust line comment, `harper_wasm::Linter` (plain and Markdown, `apply_suggestion`), and the real harper-ls (diagnostic ranges, code-action edits, re-publication after the edits; default and explicit `linters` configuration). Non-trivial = a lint is reported; distinct by (digits, spelling, position)."
        ),
        true,
        json!({
            "exhaustive_scope": format!("n in 0..{} × 16 suffix spellings (template text); all from_chars inputs of length ≤3 over 18 characters", nmax),
            "out_of_scope": oos,
        }),
    );
}

// =====================================================================================
// w25 — audit of oracles / call sites / generator dimensions against the property text.
// =====================================================================================

const W25_MSG: &str = "This number needs a different suffix to sound right.";

/// a document made of text pieces and ordinals; positions follow from the construction
#[derive(Clone)]
struct Multi {
    /// (text before, digits, spelled suffix) … and the text after the last ordinal
    ords: Vec<(String, String, String)>,
    tail: String,
}

impl Multi {
    fn text(&self) -> String {
        let mut s = String::new();
        for (pre, d, w) in &self.ords {
            s.push_str(pre);
            s.push_str(d);
            s.push_str(w);
        }
        s.push_str(&self.tail);
        s
    }
    /// expected lints: (start, end, correct suffix) of every wrong ordinal, char indices
    fn expected(&self, shift: usize) -> Vec<(usize, usize, String)> {
        let mut at = shift;
        let mut v = vec![];
        for (pre, d, w) in &self.ords {
            at += pre.chars().count() + d.chars().count();
            let want = english(d);
            if w.to_ascii_lowercase() != want {
                v.push((at, at + 2, want.to_string()));
            }
            at += 2;
        }
        v
    }
    fn json(&self, engine: &str) -> Value {
        json!({"w25": engine, "text": self.text(), "ords": self.ords.iter().map(|(p, d, w)| json!([p, d, w])).collect::<Vec<_>>(), "tail": self.tail})
    }
    fn from_json(v: &Value) -> Multi {
        let ords = v["ords"].as_array().map(|a| a.iter().map(|x| (x[0].as_str().unwrap_or("").to_string(), x[1].as_str().unwrap_or("").to_string(), x[2].as_str().unwrap_or("").to_string())).collect()).unwrap_or_default();
        Multi { ords, tail: v["tail"].as_str().unwrap_or("").to_string() }
    }
}

/// separators that keep every ordinal in the property's scope (not preceded by an alphanumeric,
/// `.` or `,`; followed by the end of the text or a non-alphanumeric that starts no longer token)
const W25_SEPS_PLAIN: &[&str] = &[" and the ", ", the ", "; ", " (", ") ", " — ", "\n", "\r\n", " 😀 ", " é ", "! ", "? ", " / ", "\t", "\n\n", " \"", "\" ", " 𝒜 ", " e\u{301} "];
const W25_SEPS_SAFE: &[&str] = &[" and the ", ", the ", "; ", " 😀 ", " é ", "! ", " — ", " (see ", ") "];

fn w25_multi(rng: &mut Rng, seps: &[&str], all_wrong: bool) -> Multi {
    let k = rng.range(2, 6);
    let mut ords = vec![];
    for i in 0..k {
        let pre = if i == 0 { (*rng.pick::<&str>(&["The ", "", "On the ", "It was the ", "é😀 "])).to_string() } else { (*rng.pick::<&str>(seps)).to_string() };
        let d = if rng.chance(1, 3) { random_digits(rng) } else { rng.below(130).to_string() };
        let w = if !all_wrong && rng.chance(1, 2) {
            let e = english(&d);
            (*rng.pick::<&str>(&[e, &e.to_uppercase()])).to_string()
        } else {
            (*rng.pick(&SPELLINGS)).to_string()
        };
        ords.push((pre, d, w));
    }
    let tail = (*rng.pick::<&str>(&["", ".", " item.", " of May.", "!", " 😀"])).to_string();
    Multi { ords, tail }
}

type W25Lints = Vec<(usize, usize, Vec<String>)>;

fn w25_core_lints(lints: &[harper_core::linting::Lint], only_msg: bool) -> (W25Lints, Vec<(harper_core::Span, Suggestion)>) {
    let mut v = vec![];
    let mut fixes = vec![];
    for l in lints {
        if only_msg && l.message != W25_MSG {
            continue;
        }
        let sugg: Vec<String> = l.suggestions.iter().map(|s| match s { Suggestion::ReplaceWith(cs) => cs.iter().collect(), other => format!("{:?}", other) }).collect();
        v.push((l.span.start, l.span.end, sugg));
        if let Some(s) = l.suggestions.first() {
            fixes.push((l.span, s.clone()));
        }
    }
    (v, fixes)
}

fn w25_apply(text: &str, fixes: &[(harper_core::Span, Suggestion)]) -> String {
    let mut src: Vec<char> = text.chars().collect();
    let mut f: Vec<_> = fixes.to_vec();
    f.sort_by_key(|x| std::cmp::Reverse(x.0.start));
    for (span, s) in f {
        s.apply(span, &mut src);
    }
    src.iter().collect()
}

/// the engines: how a text reaches the rule. Returns (lints of the rule, lints after all its
/// suggestions were applied, char shift of the Multi's text inside the engine's document)
fn w25_engine(engine: &str, m: &Multi) -> Result<(W25Lints, usize, usize), String> {
    use harper_core::linting::CorrectNumberSuffix;
    use harper_core::{MergedDictionary, MutableDictionary, WordMetadata};
    use std::sync::Arc;
    let dict = FstDictionary::curated();
    let body = m.text();
    let (text, shift): (String, usize) = match engine {
        "markdown-strong" => {
            // every ordinal inside emphasis of its own
            let mut s = String::new();
            for (pre, d, w) in &m.ords {
                s.push_str(pre);
                s.push_str(&format!("**{}{}**", d, w));
            }
            s.push_str(&m.tail);
            (s, usize::MAX)
        }
        "rust-comment" => (format!("fn f() {{}}\n// {}\nfn g() {{}}\n", body), 13),
        _ => (body.clone(), 0),
    };
    guarded(|| {
        fn only(mut g: LintGroup) -> LintGroup {
            g.config.clear();
            g.config.set_rule_enabled("CorrectNumberSuffix", true);
            g
        }
        // (document maker, linter, filter by message)
        let mk_doc = |t: &str| -> Document {
            match engine {
                "markdown" | "markdown-strong" => Document::new_markdown_default(t, &dict),
                "rust-comment" => {
                    let p = harper_comments::CommentParser::new_from_language_id("rust", harper_core::parsers::MarkdownOptions::default()).unwrap();
                    Document::new(t, &p, &dict)
                }
                "merged-dict" => Document::new_plain_english(t, &w25_merged()),
                _ => Document::new_plain_english(t, &dict),
            }
        };
        fn w25_merged() -> Arc<MergedDictionary> {
            let mut user = MutableDictionary::new();
            for w in ["st", "nd", "rd", "th", "ST", "2st", "3th", "11st", "1ST", "Nd"] {
                user.append_word_str(w, WordMetadata::default());
            }
            let mut md = MergedDictionary::new();
            md.add_dictionary(FstDictionary::curated());
            md.add_dictionary(Arc::new(user));
            Arc::new(md)
        }
        let lint = |doc: &Document| -> Vec<harper_core::linting::Lint> {
            match engine {
                "direct" => CorrectNumberSuffix.lint(doc),
                "merged-dict" => only(LintGroup::new_curated(w25_merged(), Dialect::American)).lint(doc),
                "all-rules-american" => LintGroup::new_curated(dict.clone(), Dialect::American).lint(doc),
                "all-rules-british" => LintGroup::new_curated(dict.clone(), Dialect::British).lint(doc),
                "all-rules-canadian" => LintGroup::new_curated(dict.clone(), Dialect::Canadian).lint(doc),
                "all-rules-australian" => LintGroup::new_curated(dict.clone(), Dialect::Australian).lint(doc),
                _ => only(LintGroup::new_curated(dict.clone(), Dialect::American)).lint(doc),
            }
        };
        let by_msg = engine.starts_with("all-rules");
        let doc = mk_doc(&text);
        let (lints, fixes) = w25_core_lints(&lint(&doc), by_msg);
        let fixed = w25_apply(&text, &fixes);
        let doc2 = mk_doc(&fixed);
        let (after, _) = w25_core_lints(&lint(&doc2), by_msg);
        (lints, after.len(), shift)
    })
}

/// `sess.fail` + a tally per engine (attribution when the 20 recorded failures per class are taken)
fn w25_fail(sess: &mut Session, engine: &str, class: &str, desc: String, input: Value) {
    sess.count(&format!("w25:failures-seen-by:{}:{}", engine, class));
    sess.fail(class, desc, input, None);
}

/// compare what an engine reported with what the construction of the text demands
fn w25_judge(sess: &mut Session, engine: &str, m: &Multi, lints: &W25Lints, after: usize, shift: usize) {
    sess.o();
    sess.count(&format!("w25:engine:{}", engine));
    sess.count(&format!("w25:ordinals-per-document={}", m.ords.len()));
    // `markdown-strong`: the positions are those of the text with `**` around every ordinal
    let want: Vec<(usize, usize, String)> = if shift == usize::MAX {
        let mut at = 0usize;
        let mut v = vec![];
        for (pre, d, w) in &m.ords {
            at += pre.chars().count() + 2 + d.chars().count();
            if w.to_ascii_lowercase() != english(d) {
                v.push((at, at + 2, english(d).to_string()));
            }
            at += 2 + 2;
        }
        v
    } else {
        m.expected(shift)
    };
    sess.count(&format!("w25:wrong-ordinals-per-document={}", want.len().min(4)));
    if !want.is_empty() {
        sess.nontrivial(&format!("w25|{}|{}", engine, m.text()));
    }
    let got: Vec<(usize, usize)> = lints.iter().map(|l| (l.0, l.1)).collect();
    let inp = m.json(engine);
    for (s, e, sfx) in &want {
        match lints.iter().find(|l| l.0 == *s && l.1 == *e) {
            None => {
                // is there a lint that overlaps it (wrong span) or none at all (missed)?
                let class = if got.iter().any(|g| g.0 < *e && *s < g.1) { "span" } else { "missed" };
                w25_fail(sess, engine, class, format!("[{}] {:?}: the wrong suffix at [{}, {}) should be reported with {:?}; reported spans {:?}", engine, m.text(), s, e, sfx, got), inp.clone());
                return;
            }
            Some(l) => {
                if !(l.2.len() == 1 && l.2[0].to_ascii_lowercase() == *sfx) {
                    w25_fail(sess, engine, "suggestion", format!("[{}] {:?}: suggestion {:?} at [{}, {}), correct suffix is {:?}", engine, m.text(), l.2, s, e, sfx), inp.clone());
                    return;
                }
            }
        }
    }
    if got.len() != want.len() {
        let extra: Vec<&(usize, usize)> = got.iter().filter(|g| !want.iter().any(|w| (w.0, w.1) == **g)).collect();
        w25_fail(sess, engine, "false-alarm", format!("[{}] {:?}: {} lint(s) for {} wrong suffix(es); unexpected spans {:?}", engine, m.text(), got.len(), want.len(), extra), inp.clone());
        return;
    }
    if after != 0 {
        w25_fail(sess, engine, "not-fixed", format!("[{}] {:?}: {} lint(s) remain after applying every suggestion", engine, m.text(), after), inp);
    }
}

const W25_ENGINES: &[&str] = &["direct", "fresh-group", "merged-dict", "all-rules-american", "all-rules-british", "all-rules-canadian", "all-rules-australian", "markdown", "markdown-strong", "rust-comment"];

/// harper_wasm::Linter (native build): lint → the rule's lints; apply_suggestion for each → relint
fn w25_wasm(js: &mut harper_wasm::Linter, md: bool, m: &Multi) -> Result<(W25Lints, usize, usize), String> {
    use harper_wasm::Language;
    let lang = || if md { Language::Markdown } else { Language::Plain };
    let text = m.text();
    let r = std::panic::catch_unwind(std::panic::AssertUnwindSafe(|| {
        let out = js.lint(text.clone(), lang());
        let mut mine: Vec<&harper_wasm::Lint> = out.iter().filter(|l| l.message() == W25_MSG).collect();
        let lints: W25Lints = mine.iter().map(|l| (l.span().start, l.span().end, l.suggestions().iter().map(|s| s.get_replacement_text()).collect())).collect();
        // apply from the last to the first (the lints keep their spans: every edit has length 2)
        mine.sort_by_key(|l| std::cmp::Reverse(l.span().start));
        let mut t = text.clone();
        for l in mine {
            if let Some(s) = l.suggestions().first() {
                t = js.apply_suggestion(t.clone(), l, s).unwrap_or(t);
            }
        }
        let after = js.lint(t, lang()).iter().filter(|l| l.message() == W25_MSG).count();
        (lints, after, 0usize)
    }));
    r.map_err(|_| "panic".to_string())
}

/// UTF-16 (line, column) of the char index `at` of `text`
fn w25_pos16(text: &str, at: usize) -> (usize, usize) {
    let (mut line, mut col) = (0usize, 0usize);
    for (i, c) in text.chars().enumerate() {
        if i == at {
            break;
        }
        if c == '\n' {
            line += 1;
            col = 0;
        } else {
            col += c.len_utf16();
        }
    }
    (line, col)
}

/// the real harper-ls: didOpen → the rule's diagnostics (ranges), codeAction on each (edit),
/// didChange with every edit applied → no such diagnostic
fn w25_server(sess: &mut Session, ctx: &Ctx, cfg: &Value, cfg_name: &str, lang: &str, docs: &[Multi]) -> Result<(), crate::lsclient::LsError> {
    use crate::lsclient::*;
    set_home(&ctx.out.join("c17-home"));
    let mut ls = LsSession::start()?;
    ls.initialize(cfg)?;
    for (n, m) in docs.iter().enumerate() {
        let engine = format!("ls:{}:{}", cfg_name, lang);
        // a last line of its own, newline-terminated (C08's recorded last-line quirk is not C17's business)
        let text = format!("{}\nEnd.\n", m.text());
        let uri = format!("file:///c17-server/doc{}.{}", n, if lang == "markdown" { "md" } else { "txt" });
        ls.notify("textDocument/didOpen", did_open(&uri, lang, &text))?;
        ls.quiesce(cfg)?;
        let diags: Vec<Value> = ls.last_publication(&uri).and_then(|v| v.as_array().cloned()).unwrap_or_default().into_iter().filter(|d| d["message"].as_str() == Some(W25_MSG)).collect();
        sess.o();
        sess.count(&format!("w25:engine:{}", engine));
        let want = m.expected(0);
        let inp = m.json(&engine);
        let rng_of = |d: &Value| (d["range"]["start"]["line"].as_u64().unwrap_or(9999) as usize, d["range"]["start"]["character"].as_u64().unwrap_or(9999) as usize, d["range"]["end"]["line"].as_u64().unwrap_or(9999) as usize, d["range"]["end"]["character"].as_u64().unwrap_or(9999) as usize);
        let got: Vec<(usize, usize, usize, usize)> = diags.iter().map(rng_of).collect();
        let mut edits: Vec<(usize, String)> = vec![];
        let mut bad = false;
        for (s, e, sfx) in &want {
            let (l0, c0) = w25_pos16(&text, *s);
            let (l1, c1) = w25_pos16(&text, *e);
            if !got.contains(&(l0, c0, l1, c1)) {
                w25_fail(sess, &engine, "missed", format!("[{}] {:?}: no diagnostic of the rule at {}:{}-{}:{} (the wrong suffix at chars [{}, {})); published {:?}", engine, text, l0, c0, l1, c1, s, e, got), inp.clone());
                bad = true;
                break;
            }
            let params = json!({"textDocument": {"uri": uri}, "range": {"start": {"line": l0, "character": c0}, "end": {"line": l1, "character": c1}}, "context": {"diagnostics": []}});
            let resp = ls.request_sync("textDocument/codeAction", params, cfg)?;
            let found = resp["result"].as_array().map(|a| {
                a.iter().any(|act| {
                    act["edit"]["changes"][&uri].as_array().is_some_and(|es| {
                        es.len() == 1 && es[0]["newText"].as_str().is_some_and(|t| t.to_ascii_lowercase() == *sfx) && rng_of(&es[0]) == (l0, c0, l1, c1)
                    })
                })
            });
            if found != Some(true) {
                w25_fail(sess, &engine, "suggestion", format!("[{}] {:?}: no code action replaces {}:{}-{}:{} with {:?}", engine, text, l0, c0, l1, c1, sfx), inp.clone());
                bad = true;
                break;
            }
            edits.push((*s, sfx.clone()));
        }
        if bad {
            continue;
        }
        if got.len() != want.len() {
            w25_fail(sess, &engine, "false-alarm", format!("[{}] {:?}: {} diagnostic(s) of the rule for {} wrong suffix(es): {:?}", engine, text, got.len(), want.len(), got), inp.clone());
            continue;
        }
        if !want.is_empty() {
            sess.nontrivial(&format!("w25|{}|{}", engine, text));
            let mut cs: Vec<char> = text.chars().collect();
            for (s, sfx) in &edits {
                for (k, c) in sfx.chars().enumerate() {
                    cs[s + k] = c;
                }
            }
            let fixed: String = cs.iter().collect();
            ls.notify("textDocument/didChange", did_change(&uri, 2, &fixed))?;
            ls.quiesce(cfg)?;
            let left = ls.last_publication(&uri).and_then(|v| v.as_array().cloned()).unwrap_or_default().into_iter().filter(|d| d["message"].as_str() == Some(W25_MSG)).count();
            if left != 0 {
                w25_fail(sess, &engine, "not-fixed", format!("[{}] {:?} → {:?}: {} diagnostic(s) of the rule remain", engine, text, fixed, left), inp.clone());
            }
        }
    }
    ls.shutdown(cfg)?;
    Ok(())
}

fn w25_server_configs() -> Vec<(&'static str, Value)> {
    vec![
        ("default", json!({"harper-ls": {}})),
        ("explicit", json!({"harper-ls": {"linters": {"CorrectNumberSuffix": true, "SpellCheck": false, "NoSuchRule": true, "SentenceCapitalization": null}, "dialect": "British"}})),
    ]
}

fn w25_replay(sess: &mut Session, ctx: &Ctx, v: &Value) {
    let engine = v["w25"].as_str().unwrap_or("").to_string();
    let m = Multi::from_json(v);
    if let Some(rest) = engine.strip_prefix("ls:") {
        let (cfg_name, lang) = rest.split_once(':').unwrap_or(("default", "plaintext"));
        let cfg = w25_server_configs().into_iter().find(|c| c.0 == cfg_name).map(|c| c.1).unwrap_or(json!({"harper-ls": {}}));
        if let Err(e) = w25_server(sess, ctx, &cfg, cfg_name, lang, &[m]) {
            sess.sample(json!({"w25 server stream failed": format!("{:?}", e)}));
        }
    } else if let Some(lang) = engine.strip_prefix("wasm:") {
        let mut js = harper_wasm::Linter::new(harper_wasm::Dialect::American);
        match w25_wasm(&mut js, lang == "markdown", &m) {
            Ok((l, after, shift)) => w25_judge(sess, &engine, &m, &l, after, shift),
            Err(_) => sess.fail("panic", format!("[{}] {:?}: panicked", engine, m.text()), m.json(&engine), None),
        }
    } else {
        match w25_engine(&engine, &m) {
            Ok((l, after, shift)) => w25_judge(sess, &engine, &m, &l, after, shift),
            Err(_) => sess.fail("panic", format!("[{}] {:?}: panicked", engine, m.text()), m.json(&engine), None),
        }
    }
}

fn w25_streams(sess: &mut Session, tally: &mut Tally, ctx: &Ctx, rng: &mut Rng, sents: &[String]) {
    let thorough = ctx.tier == Tier::Thorough;
    // a. prefixes the embedding in rule-test sentences never writes: non-ASCII, astral, combining,
    //    CRLF / lone CR, blank-only, very long — the existing judgement (K `nsrule` + O)
    let mut cases = vec![];
    let long_prefix = format!("{} ", "word ".repeat(if thorough { 4000 } else { 600 }));
    let prefixes: Vec<String> = [
        "😀 ", "😀😀😀 the ", "é ü ß İ the ", "𝒜𝒷 ", "e\u{301} ", "\u{301} ", "中文 ", "한국어 ", "１２ ", "ｓｔ ", "a\r\n", "a\r", "\r\n\r\n", "\n\n\n", " \t ", "\u{a0}", "\u{3000}", "\u{200b} ", "“", "‘", "«", "—", "…", "👨‍👩‍👧 ", "x\u{2028}",
    ]
    .iter()
    .map(|s| s.to_string())
    .chain([long_prefix])
    .collect();
    for pre in &prefixes {
        for (d, w) in [("2", "st"), ("22", "ND"), ("13", "th"), ("101", "st"), ("112", "nD"), ("11", "st"), ("3", "rd"), ("9007199254740991", "nd")] {
            cases.push(Case::new(pre, d, w, "", "w25-prefix"));
            cases.push(Case::new(pre, d, w, " item 😀.", "w25-prefix"));
            cases.push(Case::new(pre, d, w, "\r\nnext", "w25-prefix"));
        }
    }
    for _ in 0..(if thorough { 20_000 } else { 1_500 }) {
        let (d, w) = (random_digits(rng), *rng.pick(&SPELLINGS));
        let mut c = embed(rng, sents, &d, w, "w25-prefix-random");
        let pre = prefixes[rng.below(prefixes.len() - 1)].clone();
        c.prefix = format!("{}{}", pre, c.prefix);
        if rng.chance(1, 3) {
            c.prefix = c.prefix.replace(' ', *rng.pick::<&str>(&["  ", "\t", "\n", "\r\n", " 😀 "]));
        }
        if c.prefix.chars().last().is_some_and(|ch| ch.is_alphanumeric() || ch == '.' || ch == ',') {
            c.prefix.push(' ');
        }
        cases.push(c);
    }
    run_batch(sess, tally, &cases);

    // b. several ordinals in one document, through every in-process engine
    let per_engine = if thorough { 4000 } else { 300 };
    let mut jobs: Vec<(&'static str, Multi)> = vec![];
    for engine in W25_ENGINES {
        let plain = matches!(*engine, "direct" | "fresh-group" | "merged-dict") || engine.starts_with("all-rules");
        let n = if engine.starts_with("all-rules") { per_engine / 3 } else { per_engine };
        // corpus: the seeded change C17r4's witness and neighbours
        for (a, b) in [(("1", "st"), ("2", "st")), (("2", "st"), ("3", "nd")), (("11", "st"), ("12", "nd")), (("21", "st"), ("22", "nd"))] {
            jobs.push((engine, Multi { ords: vec![("The ".into(), a.0.into(), a.1.into()), (" and the ".into(), b.0.into(), b.1.into())], tail: " of May.".into() }));
        }
        for i in 0..n {
            jobs.push((engine, w25_multi(rng, if plain { W25_SEPS_PLAIN } else { W25_SEPS_SAFE }, i % 4 == 0)));
        }
    }
    let threads = std::thread::available_parallelism().map(|n| n.get()).unwrap_or(4).min(16);
    let outs = par_map(jobs.len(), threads, |i| w25_engine(jobs[i].0, &jobs[i].1));
    for (j, o) in jobs.iter().zip(outs) {
        match o {
            Ok((l, after, shift)) => w25_judge(sess, j.0, &j.1, &l, after, shift),
            Err(_) => {
                sess.o();
                sess.fail("panic", format!("[{}] {:?}: panicked", j.0, j.1.text()), j.1.json(j.0), None);
            }
        }
    }

    // c. harper_wasm::Linter, ONE long-lived instance per language (its own dictionary and group)
    for md in [false, true] {
        let engine = if md { "wasm:markdown" } else { "wasm:plain" };
        let mut js = harper_wasm::Linter::new(harper_wasm::Dialect::American);
        for i in 0..(if thorough { 1500 } else { 120 }) {
            let m = w25_multi(rng, if md { W25_SEPS_SAFE } else { W25_SEPS_PLAIN }, i % 4 == 0);
            match w25_wasm(&mut js, md, &m) {
                Ok((l, after, shift)) => w25_judge(sess, engine, &m, &l, after, shift),
                Err(_) => {
                    sess.o();
                    sess.fail("panic", format!("[{}] {:?}: panicked", engine, m.text()), m.json(engine), None);
                }
            }
        }
    }

    // d. the real harper-ls, two configurations × plain / Markdown, several documents open at once
    for (cfg_name, cfg) in w25_server_configs() {
        for lang in ["plaintext", "markdown"] {
            let docs: Vec<Multi> = (0..(if thorough { 60 } else { 8 })).map(|i| w25_multi(rng, W25_SEPS_SAFE, i % 3 == 0)).collect();
            if let Err(e) = w25_server(sess, ctx, &cfg, cfg_name, lang, &docs) {
                sess.sample(json!({"w25 server stream failed": format!("{:?}", e)}));
                sess.count("w25:ls:stream-error");
            }
        }
    }
}
